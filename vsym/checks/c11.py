"""C11 (partial): run-time arm selection of `match` — the bytecode the front end emits for generated
matches is executed symbolically (vsym DBC front end) and compared, for *every* scrutinee value,
with the first-match oracle built from the generator's own pattern list.

Deciding step: z3 (negated assertion unsat), cross-checked by /usr/bin/z3 and cvc5 on SMT-LIB
dumps.  Concrete runs of the real executables (both back ends) are used only to validate the
interpreter and to replay solver counterexamples.  See vsym/dbc/NOTES.md.
"""
import hashlib
import json
import multiprocessing
import os
import random
import shutil
import subprocess
import time
import traceback

import z3

from .. import common
from ..common import Inconclusive
from ..dbc import gen, interp, parser

BATCH = 8
WORKROOT = os.path.join(common.WORK, "dbc", "c11")
QUERY_TIMEOUT_MS = 60000

OUTSIDE = [
    "the exhaustiveness / usefulness decision procedure itself (dora-frontend/src/exhaustiveness.rs "
    "check_match): only its consequence 'an accepted match never falls through' is checked, on the "
    "generated programs; which programs are accepted/rejected and the USELESS_PATTERN diagnostics are not decided by a solver",
    "String literal patterns (need std::string::<impl String>::equals over heap strings)",
    "Float literal patterns",
    "struct / class destructuring patterns, `..` rest patterns, patterns in `let` / `for` / `if let`",
    "guards other than calls g(x) of an opaque function on the scrutinee; guards on compound scrutinees",
    "arm bodies other than an Int32 constant or a bound Int32 variable",
    "the back ends' translation of the bytecode (Switch, Test*, Sub): their semantics are read from "
    "dora-cannon-compiler/src/codegen.rs and pkgs/boots/codegen/x64.dora and validated on concrete runs only (C01 is the check for that)",
]

ASSUMPTIONS = [
    "the front end's bytecode dumper (dora-bytecode/src/dumper.rs) prints what is emitted",
    "bytecode semantics of vsym/dbc/interp.py (Switch = unsigned 32-bit index < table length else default; "
    "Sub wrapping; Test* signed except UInt8; Int64->Int32 truncation; UInt8->Int32 zero extension), "
    "validated each run against both real executables on concrete scrutinee values",
    "a scrutinee of an enum type holds a declared variant (tag < number of variants); a Char is a Unicode scalar value",
    "guard functions are pure: modelled as uninterpreted functions of the scrutinee",
    "z3 and cvc5 are sound on QF_UFBV queries of this size",
]


# ---------------------------------------------------------------------------------------
# helpers: compile / run

def dora_bin():
    return os.path.join(common.REPO, "target", "debug", "dora")


def compile_dora(src_path, out_path, cannon=False, emit=False, timeout=180):
    cmd = [dora_bin(), "compile", src_path, "-o", out_path]
    if cannon:
        cmd.append("--cannon")
    if emit:
        cmd += ["--emit-bytecode", "all"]
    try:
        p = subprocess.run(cmd, stdout=subprocess.PIPE, stderr=subprocess.PIPE, timeout=timeout, env=common.ENV)
    except subprocess.TimeoutExpired:
        return "timeout", "", "compiler timed out after %ds" % timeout
    return p.returncode, p.stdout.decode("utf-8", "replace"), p.stderr.decode("utf-8", "replace")


def run_exe(path, timeout=60):
    try:
        p = subprocess.run([path], stdout=subprocess.PIPE, stderr=subprocess.PIPE, timeout=timeout)
    except subprocess.TimeoutExpired:
        return -999, "", "timeout"
    return p.returncode, p.stdout.decode("utf-8", "replace"), p.stderr.decode("utf-8", "replace")


def kernel_text(fn_obj):
    """instruction text of a parsed function (for 'same bytecode' comparisons)"""
    return "\n".join(i.raw for i in fn_obj.instrs)


# ---------------------------------------------------------------------------------------
# solver plumbing

def smt2_of(assertions):
    s = z3.Solver()
    for a in assertions:
        s.add(a)
    return "(set-logic ALL)\n" + s.to_smt2()


SOLVERS = (("z3bin", ["/usr/bin/z3", "-T:300"]), ("cvc5", ["cvc5", "--incremental", "--tlimit=300000"]))


def run_solvers(path, stats, nqueries):
    """-> {'z3bin': [answers…], 'cvc5': [answers…]} for a file with nqueries (check-sat) commands;
    an answer list of the wrong length / an `(error` makes the entry a string describing the problem."""
    out = {}
    for tag, cmd in SOLVERS:
        t = time.time()
        try:
            p = subprocess.run(cmd + [path], stdout=subprocess.PIPE, stderr=subprocess.PIPE, timeout=400)
            txt = (p.stdout.decode() + p.stderr.decode()).strip()
        except subprocess.TimeoutExpired:
            txt = "timeout"
        stats["solver_time_s"] += time.time() - t
        lines = [l.strip() for l in txt.split("\n") if l.strip()]
        if "(error" in txt or len(lines) != nqueries or any(l not in ("sat", "unsat") for l in lines):
            out[tag] = "error: " + txt[:300]
        else:
            out[tag] = lines
            stats["queries_external"] += nqueries
    return out


def decide(assertions, qpath, stats, want_model=False, pending=None, owner=None):
    """Verdict query: decided by the z3 Python API; the SMT-LIB dump is decided again by
    /usr/bin/z3 and cvc5 — immediately (pending is None) or at the end of the batch
    (`cross_check`, one solver process per batch instead of one per query).
    -> ('sat'|'unsat', model or None).  unknown -> Inconclusive."""
    s = z3.Solver()
    s.set("timeout", QUERY_TIMEOUT_MS)
    for a in assertions:
        s.add(a)
    t = time.time()
    r = s.check()
    stats["solver_time_s"] += time.time() - t
    stats["queries"] += 1
    if r == z3.unknown:
        raise Inconclusive("z3 unknown on %s: %s" % (qpath, s.reason_unknown()))
    res = "sat" if r == z3.sat else "unsat"
    body = s.to_smt2()
    with open(qpath, "w") as f:
        f.write("(set-logic ALL)\n" + body)
    if pending is None:
        ext = run_solvers(qpath, stats, 1)
        for tag, v in ext.items():
            if v != [res]:
                raise Inconclusive("solver disagreement on %s: z3py=%s %s=%s" % (qpath, res, tag, v))
    else:
        pending.append({"owner": owner, "path": qpath, "body": body, "expect": res})
    return res, (s.model() if (res == "sat" and want_model) else None)


def cross_check(pending, wdir, stats):
    """Decide all dumped verdict queries of a batch with both external solvers.
    -> {owner: reason} for the kernels whose queries were not confirmed."""
    if not pending:
        return {}
    path = os.path.join(wdir, "batch_queries.smt2")
    with open(path, "w") as f:
        f.write("(set-logic ALL)\n")
        for q in pending:
            f.write("(push 1)\n%s\n(pop 1)\n" % q["body"])
    ext = run_solvers(path, stats, len(pending))
    bad = {}
    if all(isinstance(v, list) for v in ext.values()):
        for i, q in enumerate(pending):
            for tag, v in ext.items():
                if v[i] != q["expect"]:
                    bad[q["owner"]] = "solver disagreement on %s: z3py=%s %s=%s" % (q["path"], q["expect"], tag, v[i])
        return bad
    # a solver choked on the combined file: decide every query on its own
    for q in pending:
        e1 = run_solvers(q["path"], stats, 1)
        for tag, v in e1.items():
            if v != [q["expect"]]:
                bad[q["owner"]] = "solver disagreement on %s: z3py=%s %s=%s" % (q["path"], q["expect"], tag, v)
    return bad


def quick_sat(assertions, stats):
    s = z3.Solver()
    s.set("timeout", QUERY_TIMEOUT_MS)
    for a in assertions:
        s.add(a)
    t = time.time()
    r = s.check()
    stats["solver_time_s"] += time.time() - t
    stats["queries"] += 1
    if r == z3.unknown:
        raise Inconclusive("z3 unknown (vacuity query): %s" % s.reason_unknown())
    return r == z3.sat, (s.model() if r == z3.sat else None)


# ---------------------------------------------------------------------------------------
# per kernel

def uf_sort(T):
    if T == "Bool":
        return z3.BoolSort()
    if T in interp.INT_BITS:
        return z3.BitVecSort(interp.INT_BITS[T])
    return z3.BitVecSort(32)     # payload-free enum: the tag


def make_ufs(fn):
    return {gn: z3.Function(gn, uf_sort(gt), z3.BoolSort()) for gn, (gt, _b) in fn.guards.items()}


def expected_stdout(v):
    return "%d\n" % v


def replay_program(fn, value, guard_vals):
    return gen.program_src([fn], [(fn, value)], guard_override=guard_vals if fn.guards else None)


def do_replay(fn_src_text, expected, wdir, tag, ref_kernel=None, kernel_name=None):
    """Compile the replay program with both back ends, run, compare with the oracle's answer.
    -> (reproduced?, observations, note).  Reproduced = some back end that built the program shows
    another result (or dies).  A back end that can not build the program is recorded."""
    os.makedirs(wdir, exist_ok=True)
    src = os.path.join(wdir, "replay_%s.dora" % tag)
    with open(src, "w") as f:
        f.write(fn_src_text)
    obs = {}
    deviates = False
    built = 0
    for be, cannon in (("cannon", True), ("boots", False)):
        exe = os.path.join(wdir, "replay_%s.%s" % (tag, be))
        rc, out, err = compile_dora(src, exe, cannon=cannon, emit=(be == "cannon" and ref_kernel is not None))
        if rc != 0:
            obs[be] = {"compile_failed": rc, "stderr": err[-600:], "stdout": out[-300:]}
            continue
        if be == "cannon" and ref_kernel is not None:
            try:
                k2 = kernel_text(parser.Program(out).function(kernel_name))
            except parser.Unsupported as e:
                return False, obs, "replay dump unreadable: %s" % e
            if k2 != ref_kernel:
                return False, obs, "kernel bytecode of the replay program differs from the analysed one"
        built += 1
        rc, out, err = run_exe(exe)
        obs[be] = {"exit": rc, "stdout": out[-300:], "stderr": err[-300:]}
        try:
            os.remove(exe)
        except OSError:
            pass
        if rc != 0 or out != expected_stdout(expected):
            deviates = True
    if built == 0:
        return False, obs, "replay program does not compile with any back end"
    return deviates, obs, ""


def check_kernel(fn, prog, wdir, stats, validated_kernel, pending=None):
    """Symbolic check of one kernel.  -> result dict (status ok | violation | inconclusive)."""
    res = {"name": fn.name, "key": fn.key(), "T": fn.T, "shape": fn.shape, "status": "ok", "arms": len(fn.arms)}
    f = prog.function(fn.name)
    res["lowering"] = f.shape()
    res["lowering_kind"] = ("table" if f.shape()["switch_tables"] else "chain") + \
                           ("+range" if f.shape()["switch_tables"] and f.shape()["test_gt"] else "")
    ufs = make_ufs(fn)
    I = interp.Interp(prog, fn.enums, {k: v for k, v in fn.consts.items()}, ufs)
    valid = []
    x = I.types.fresh(f.regs[0], "x", valid)
    if interp.norm_type(f.regs[0]) != fn.T:
        raise interp.EncodingError("parameter type %s of %s is not %s" % (f.regs[0], fn.name, fn.T))
    paths = I.run(fn.name, [x])
    res["paths"] = len(paths)
    res["ops"] = sorted(I.ops_seen)
    res["undef_reads"] = I.undef_reads
    stats["paths"] += len(paths)
    stats["steps"] += I.steps
    VALID = z3.And(valid) if valid else z3.BoolVal(True)
    o_val, o_arm, o_conds = gen.oracle(fn, x, ufs)

    # generator promise: the arm list is exhaustive (z3 only: this is about the generator)
    if not fn.expect_reject:
        s, _ = quick_sat([VALID, o_arm == z3.BitVecVal(-1, 32)], stats)
        if s:
            raise Inconclusive("generator produced a non-exhaustive match %s" % fn.name)

    pcs, bads, goods = [], [], []
    for p in paths:
        pc = z3.And(p.conds) if p.conds else z3.BoolVal(True)
        pcs.append(pc)
        if p.outcome.kind == "ret":
            bads.append(z3.And(pc, p.outcome.value != o_val))
            goods.append(z3.And(pc, p.outcome.value == o_val))
        else:
            bads.append(pc)
    qdir = os.path.join(wdir, "q")
    os.makedirs(qdir, exist_ok=True)

    # (C) the explored paths cover every valid scrutinee (no path was lost)
    r, _ = decide([VALID, z3.Not(z3.Or(pcs))], os.path.join(qdir, fn.name + "_cover.smt2"), stats,
                  pending=pending, owner=fn.name)
    if r != "unsat":
        raise Inconclusive("path conditions of %s do not cover the input space" % fn.name)

    # (V) some valid scrutinee on some path: not a return of the oracle's value
    r, model = decide([VALID, z3.Or(bads)], os.path.join(qdir, fn.name + "_verdict.smt2"), stats, want_model=True,
                      pending=pending, owner=fn.name)
    if r == "sat":
        value = gen.model_value(model, fn.T, x, fn.enums)
        xarg = x if not isinstance(x, (interp.TupleVal, interp.EnumVal)) else None
        gvals = {}
        for gn, uf in ufs.items():
            gvals[gn] = bool(z3.is_true(model.eval(uf(xarg), model_completion=True))) if xarg is not None else False
        expected = model.eval(o_val, model_completion=True).as_signed_long()
        arm = model.eval(o_arm, model_completion=True).as_signed_long()
        # what the bytecode does on that path, according to the interpreter
        got = None
        for p, pc in zip(paths, pcs):
            if z3.is_true(model.eval(pc, model_completion=True)):
                got = repr(p.outcome) if p.outcome.kind != "ret" else \
                    "ret(%d)" % model.eval(p.outcome.value, model_completion=True).as_signed_long()
                break
        stats["disagreements_checked"] += 1
        src = replay_program(fn, value, gvals)
        reproduced, obs, note = do_replay(src, expected, os.path.join(wdir, "replay"), fn.name,
                                          ref_kernel=validated_kernel, kernel_name=fn.name)
        res.update({"witness": {"scrutinee": gen.value_src(fn, fn.T, value), "guards": gvals,
                                "oracle_arm": arm, "oracle_result": expected, "bytecode_outcome": got,
                                "observed": obs, "source": src, "kernel": gen.fn_src(fn)}})
        if fn.expect_reject and arm == -1:
            res["what"] = ("match %s was ACCEPTED although no arm covers %s; at run time: %s"
                           % (fn.name, res["witness"]["scrutinee"], got))
        else:
            res["what"] = ("match on %s (%s, lowering %s): scrutinee %s guards %s: first matching arm is #%d => %d, bytecode does %s"
                           % (fn.T, fn.shape, res["lowering_kind"], res["witness"]["scrutinee"], gvals, arm, expected, got))
        if reproduced:
            res["status"] = "violation"
        else:
            res["status"] = "inconclusive"
            res["reason"] = "solver counterexample does not reproduce on the real executables (%s) — bytecode semantics of vsym are wrong?" % (note or obs)
        return res

    # vacuity: every arm the oracle can select is selected on some bytecode path with the right result
    reach, unreach = 0, []
    for i in range(len(fn.arms)):
        s1, _ = quick_sat([VALID, o_arm == z3.BitVecVal(i, 32)], stats)
        if not s1:
            unreach.append(i)
            continue
        s2, _ = quick_sat([VALID, o_arm == z3.BitVecVal(i, 32), z3.Or(goods) if goods else z3.BoolVal(False)], stats)
        if not s2:
            raise Inconclusive("vacuity: arm %d of %s is selectable by the oracle but no bytecode path returns it, "
                               "although the verdict query is unsat" % (i, fn.name))
        reach += 1
    if reach == 0:
        raise Inconclusive("vacuity: no arm of %s reachable" % fn.name)
    res["vacuity_witnesses"] = reach
    res["oracle_unreachable_arms"] = unreach
    stats["vacuity_witnesses"] += reach
    return res


# ---------------------------------------------------------------------------------------
# per batch (worker process)

def new_stats():
    return {"queries": 0, "queries_external": 0, "solver_time_s": 0.0, "paths": 0, "steps": 0,
            "vacuity_witnesses": 0, "disagreements_checked": 0, "concrete_validations": 0,
            "compile_s": 0.0, "compiles": 0}


def process(fns, wdir, seed, stats, depth=0):
    """compile + validate + check a list of kernels sharing one source file -> list of result dicts.

    The bytecode dump and the baseline executable come from one `dora compile --cannon
    --emit-bytecode all` run; the optimizing back end (boots, itself a Dora program compiled through
    the front end under test) builds the second executable.  When boots can not build the program
    the kernels are still analysed (violations still need a reproducing run) but none is a pass."""
    if os.path.isdir(wdir):
        shutil.rmtree(wdir)
    os.makedirs(wdir)
    rng = random.Random(seed * 7 + sum(map(ord, fns[0].name)))
    nval = 8
    calls = []
    for fn in fns:
        for v in gen.validation_values(rng, fn, nval):
            calls.append((fn, v))
    src = os.path.join(wdir, "kernels.dora")
    with open(src, "w") as f:
        f.write(gen.program_src(fns, calls))
    t = time.time()
    exes = {}
    dump = None
    fail = None
    boots_note = None
    for be, cannon in (("cannon", True), ("boots", False)):
        exe = os.path.join(wdir, "kernels." + be)
        rc, out, err = compile_dora(src, exe, cannon=cannon, emit=(be == "cannon"))
        stats["compiles"] += 1
        if rc != 0:
            msg = "compiler (%s back end) failed on generated program %s (exit %s): %s" % (be, src, rc, (err + out)[-600:])
            if be == "cannon":
                fail = msg
                break
            boots_note = msg
            continue
        exes[be] = exe
        if be == "cannon":
            dump = out
    stats["compile_s"] += time.time() - t
    if fail:
        if len(fns) > 1:
            out = []
            for i, fn in enumerate(fns):
                out += process([fn], os.path.join(wdir, "single_%s" % fn.name), seed, stats, depth + 1)
            return out
        return [{"name": fns[0].name, "key": fns[0].key(), "T": fns[0].T, "shape": fns[0].shape,
                 "status": "inconclusive", "reason": fail, "src": gen.fn_src(fns[0])}]
    with open(os.path.join(wdir, "kernels.dump"), "w") as f:
        f.write(dump)
    prog = parser.Program(dump)

    # real outputs
    real = {}
    for be, exe in exes.items():
        rc, out, err = run_exe(exe)
        real[be] = (rc, out.split("\n"), err)
        try:
            os.remove(exe)        # ~40 MB each; the source and the dump stay
        except OSError:
            pass

    if len(fns) > 1 and any(rc != 0 for rc, _l, _e in real.values()):
        # some call ended the program early (trap / fall-through): give every kernel its own program
        out = []
        for fn in fns:
            out += process([fn], os.path.join(wdir, "single_%s" % fn.name), seed, stats, depth + 1)
        return out

    results = []
    pending = []
    for fn in fns:
        mine = [(i, v) for i, (g, v) in enumerate(calls) if g is fn]
        base = {"name": fn.name, "key": fn.key(), "T": fn.T, "shape": fn.shape, "src": gen.fn_src(fn)}
        try:
            f = prog.function(fn.name)
            # 1. translator validation: concrete interpretation (guards interpreted from their own
            #    bytecode) against the executables.  A mismatch never yields a verdict by itself.
            verr = None
            try:
                validate(fn, prog, mine, real, stats)
            except (interp.EncodingError, parser.Unsupported) as e:
                verr = str(e)
            # 2. symbolic
            r = check_kernel(fn, prog, wdir, stats, kernel_text(f), pending)
            r["validated_on"] = len(mine)
            r["src"] = base["src"]
            if r["status"] == "ok" and (verr or boots_note):
                r["status"] = "inconclusive"
                r["reason"] = verr or boots_note
            results.append(r)
        except (parser.Unsupported, interp.EncodingError, Inconclusive) as e:
            results.append(dict(base, status="inconclusive", reason="%s: %s" % (type(e).__name__, e)))
        except Exception:     # never let an internal error look like a pass
            results.append(dict(base, status="inconclusive", reason="internal error: %s" % traceback.format_exc()[-1500:]))
    # second and third opinion on every verdict query of this batch
    try:
        bad = cross_check(pending, wdir, stats)
    except Exception:
        bad = {q["owner"]: "cross-check crashed: " + traceback.format_exc()[-600:] for q in pending}
    for r in results:
        if r["name"] in bad and r["status"] != "inconclusive":
            # a reproduced counterexample stands on the concrete run, but the solvers must agree
            # before anything is called a verdict
            r["status"] = "inconclusive"
            r["reason"] = bad[r["name"]]
    return results


def validate(fn, prog, mine, real, stats):
    died = False
    for i, v in mine:
        Ic = interp.Interp(prog, fn.enums, dict(fn.consts), {}, concrete=True)
        p = Ic.run(fn.name, [gen.z3_value(fn.T, v, fn.enums)])[0]
        # a non-returning outcome: the real program dies here, all later lines are missing
        want = str(interp.concrete_value(p.outcome.value)) if p.outcome.kind == "ret" else None
        for be in real:
            rc, lines, err = real[be]
            got = lines[i] if i < len(lines) and lines[i] != "" else None
            if want is None:
                if got is not None or rc == 0:
                    raise interp.EncodingError(
                        "encoding wrong: interpreter predicts %r for %s(%s) but the %s executable printed %r (exit %d)"
                        % (p.outcome, fn.name, gen.value_src(fn, fn.T, v), be, got, rc))
                died = True
            elif got != want:
                raise interp.EncodingError(
                    "encoding wrong: %s(%s): interpreter %s, %s executable %r (exit %d, stderr %s)"
                    % (fn.name, gen.value_src(fn, fn.T, v), want, be, got, rc, err[-200:]))
        stats["concrete_validations"] += 1
        if died:
            break       # nothing after this call was executed by the real program


def worker(job):
    kind, bi, payload, seed, root = job
    stats = new_stats()
    z3.set_param("smt.random_seed", 0)
    try:
        if kind == "batch":
            res = process(payload, os.path.join(root, "b%03d" % bi), seed, stats)
            return {"kind": kind, "results": res, "stats": stats}
        else:
            return {"kind": kind, "results": [negative(payload, os.path.join(root, "neg%03d" % bi), seed, stats)],
                    "stats": stats}
    except Exception:
        return {"kind": kind, "results": [{"name": "batch%d" % bi, "key": "batch", "T": "?", "shape": "?",
                                           "status": "inconclusive",
                                           "reason": "worker crashed: " + traceback.format_exc()[-1500:]}],
                "stats": stats}


def negative(fn, wdir, seed, stats):
    """A match missing exactly one value must be rejected.  Concrete compile run = sanity count only.
    If it is *accepted*, the kernel goes through the normal symbolic pipeline, where the solver
    decides whether the fall-through is reachable (then replayed)."""
    if os.path.isdir(wdir):
        shutil.rmtree(wdir)
    os.makedirs(wdir)
    src = os.path.join(wdir, "neg.dora")
    with open(src, "w") as f:
        f.write(gen.program_src([fn], []))
    p = subprocess.run([dora_bin(), "compile", "-c", src, "-o", os.path.join(wdir, "neg.pkg")],
                       stdout=subprocess.PIPE, stderr=subprocess.PIPE, timeout=300, env=common.ENV)
    stats["compiles"] += 1
    txt = p.stdout.decode("utf-8", "replace") + p.stderr.decode("utf-8", "replace")
    r = {"name": fn.name, "key": fn.key(), "T": fn.T, "shape": fn.shape, "negative": True, "src": gen.fn_src(fn)}
    if p.returncode != 0 and "does not cover all possible values" in txt and "1 error found" in txt:
        r["status"] = "rejected"
        return r
    if p.returncode != 0:
        r["status"] = "rejected_other"
        r["reason"] = txt[-400:]
        return r
    # accepted: let the solver look at the bytecode
    rs = process([fn], os.path.join(wdir, "accepted"), seed, stats)
    rr = rs[0]
    rr["negative"] = True
    rr["accepted_nonexhaustive"] = True
    return rr


# ---------------------------------------------------------------------------------------

def tier_params(tier):
    if tier == "quick":
        # gen.generate() never returns fewer kernels than shape classes; two rounds over the classes
        return {"kernels": 2 * (len(gen.classes()) + len(gen.stretch_classes())), "negatives": 16}
    return {"kernels": 640, "negatives": 100}


def main(tier):
    t0 = time.time()
    seed = common.seed()
    common.build_dora()
    params = tier_params(tier)
    fns = gen.generate(seed, params["kernels"])
    classes_all = sorted({fn.key() for fn in fns})
    root = os.path.join(WORKROOT, "%s-%d" % (tier, seed))
    if os.path.isdir(root):
        shutil.rmtree(root)
    os.makedirs(root)
    jobs_n = max(1, int(os.environ.get("VERIF_JOBS", "16")))
    # interleave the classes over the batches so that batches have similar cost
    nb = (len(fns) + BATCH - 1) // BATCH
    batches = [fns[i::nb] for i in range(nb)]
    jobs = [("batch", i, b, seed, root) for i, b in enumerate(batches)]
    nrng = random.Random(seed * 31 + 5)
    for i in range(params["negatives"]):
        jobs.append(("neg", i, gen.gen_negative(random.Random(nrng.random()), i), seed, root))
    common.log("[C11] %d kernels in %d batches, %d negative programs, %d processes"
               % (len(fns), nb, params["negatives"], min(jobs_n, len(jobs))))
    if jobs_n == 1:
        outs = [worker(j) for j in jobs]
    else:
        with multiprocessing.get_context("fork").Pool(min(jobs_n, len(jobs))) as pool:
            outs = pool.map(worker, jobs, chunksize=1)

    stats = new_stats()
    results, negs = [], []
    for o in outs:
        for k, v in o["stats"].items():
            stats[k] += v
        for r in o["results"]:
            (negs if r.get("negative") else results).append(r)

    rep = common.Reporter("C11")
    incon = []
    seen_keys = set()
    extra_viol = 0
    for r in results + negs:
        if r["status"] == "violation":
            if r["key"] in seen_keys:
                extra_viol += 1
                continue
            seen_keys.add(r["key"])
            rep.violation(r["key"], r["what"], {"kind": "c11-kernel", "witness": r["witness"], "key": r["key"],
                                                "T": r["T"], "shape": r["shape"]})
        elif r["status"] == "inconclusive":
            incon.append(r)

    ok = [r for r in results if r["status"] == "ok"]
    by_class = {}
    for r in results:
        by_class.setdefault(r["key"], []).append(r["status"])
    lowering_hist = {}
    for r in ok:
        lowering_hist[r["lowering_kind"]] = lowering_hist.get(r["lowering_kind"], 0) + 1
    ops = sorted({o for r in ok for o in r.get("ops", [])})
    samples = []
    seen_cls = set()
    for r in ok:
        if r["key"] in seen_cls or len(samples) >= 14:
            continue
        seen_cls.add(r["key"])
        samples.append({"kernel": r["src"][-700:], "class": r["key"], "lowering": r["lowering_kind"],
                        "tables": r["lowering"]["switch_tables"], "paths": r["paths"],
                        "vacuity_witnesses": r["vacuity_witnesses"], "validated_on_concrete_values": r["validated_on"]})
    for r in results:
        if r["status"] == "violation" and len(samples) < 20:
            samples.append({"violation": r["what"], "kernel": r["witness"]["kernel"][-700:]})
    neg_counts = {}
    for r in negs:
        neg_counts[r["status"]] = neg_counts.get(r["status"], 0) + 1
    coverage = {
        "programs": len(results),
        "disagreements_checked": stats["disagreements_checked"],
        "samples": samples or [{"note": "no kernel was decided"}],
        "functions_encoded": len(ok) + sum(1 for r in results if r["status"] == "violation"),
        "functions_inconclusive": len(incon),
        "classes": {k: len(v) for k, v in sorted(by_class.items())},
        "classes_total": len(classes_all),
        "lowering_shapes_observed": lowering_hist,
        "opcodes_interpreted": ops,
        "bounds": {"arms_max": max((r["arms"] for r in ok), default=0),
                   "table_entries_max": max((max(r["lowering"]["switch_tables"] or [0]) for r in ok), default=0),
                   "scrutinee": "full range of the type (Int32/Int64/UInt8 all bit patterns, Char all scalar values, "
                                "Bool, every declared variant; payload fields full range), guards uninterpreted",
                   "nesting_depth_max": 3, "kernels_requested": params["kernels"]},
        "queries": stats["queries"], "queries_cross_checked_externally": stats["queries_external"],
        "solver_time_s": round(stats["solver_time_s"], 2),
        "paths_explored": stats["paths"], "instructions_interpreted": stats["steps"],
        "vacuity_witnesses": stats["vacuity_witnesses"],
        "concrete_validations_against_both_executables": stats["concrete_validations"],
        "compiles": stats["compiles"], "compile_time_s": round(stats["compile_s"], 1),
        "negative_programs_sanity": {"generated": len(negs), **neg_counts,
                                     "note": "matches missing exactly one value; concrete compile runs, not a deciding step"},
        "violations_same_class_suppressed": extra_viol,
        "outside_the_claim": OUTSIDE,
        "inconclusive": [{"name": r["name"], "class": r["key"], "reason": r.get("reason", "")[:600]} for r in incon[:20]],
    }
    common.write_evidence("C11", tier, "translation_validation", coverage, ASSUMPTIONS, time.time() - t0,
                          violations=len(rep.new))
    common.log("[C11] %d kernels: %d ok, %d violations (+%d same class), %d inconclusive; negatives %s; "
               "%d queries, %.1fs solver, %.1fs compile (cpu), %.1fs wall"
               % (len(results), len(ok), len(rep.new), extra_viol, len(incon), neg_counts, stats["queries"],
                  stats["solver_time_s"], stats["compile_s"], time.time() - t0))
    if rep.new:
        return 1
    if incon:
        raise Inconclusive("%d kernels undecided, first: %s: %s" % (len(incon), incon[0]["name"], incon[0].get("reason", "")[:1500]))
    missing = [k for k in classes_all if not by_class.get(k)]
    if missing:
        raise Inconclusive("shape classes without a kernel: %s" % missing)
    return rep.exit_code()


def replay(path):
    """Re-run a recorded counterexample on the current working tree (both back ends)."""
    rec = json.load(open(path))
    w = rec["replay"]["witness"]
    common.build_dora()
    wdir = os.path.join(WORKROOT, "replay-" + hashlib.sha1(path.encode()).hexdigest()[:8])
    if os.path.isdir(wdir):
        shutil.rmtree(wdir)
    reproduced, obs, note = do_replay(w["source"], w["oracle_result"], wdir, "r")
    common.log("[C11 replay] scrutinee %s expected %s observed %s %s" % (w["scrutinee"], w["oracle_result"], obs, note))
    if note:
        raise Inconclusive("replay: %s %s" % (note, obs))
    if reproduced:
        print("VIOLATION property=C11 replay=%s" % path, flush=True)
        return 1
    return 0
