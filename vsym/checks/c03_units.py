"""C03 harnesses: header word, TLAB bump step, alignment helpers, Address/Region, array size."""
import re

import z3

from .. import common
from ..common import Inconclusive
from ..mir import cmodels as CM
from ..mir import models_gc as G
from ..mir.interp import Adt, Cell, Int, Opaque, Ref, Tup, get_path
from ..mir.models import deref
from ..mir.structs import Layouts, enum_discriminants
from .c03 import H, RT, b2i

M64 = (1 << 64) - 1
MARK_SHIFT = 32          # byte 4, bit 0 of the header (Header::offset_metadata_word() == 4): the contract with compiled code


def bv(x):
    return z3.BitVecVal(x & M64, 64)


def U(x):
    return x if z3.is_expr(x) else bv(x)


def ult(a, b):
    return z3.ULT(U(a), U(b))


def ule(a, b):
    return z3.ULE(U(a), U(b))


class Env:
    """program + layouts + interpreter factory"""

    def __init__(self, prog):
        self.prog = prog
        self.L = Layouts(common.REPO)
        self.rem_shift = G.abi_const(common.REPO, "REMEMBERED_BIT_SHIFT")
        self.max_tlab_obj = G.abi_const(common.REPO, "MAX_TLAB_OBJECT_SIZE")
        self.discr = {"VtblptrWordKind": enum_discriminants(common.REPO + "/" + RT + "mirror.rs", "VtblptrWordKind"),
                      "ForwardResult": enum_discriminants(common.REPO + "/" + RT + "mirror.rs", "ForwardResult")}
        # layout produced by #[dora_object]: header word first, then the declared fields
        G.SIZES["mirror::Array<u8>"] = (16, 8)
        G.SIZES["gc::Address"] = (8, 8)                 # #[repr(C)] struct Address(usize)
        G.SIZES["runtime::waitlists::HashMapEntry<T>"] = (16, 8)      # { key: Address, value: u64 }
        f = prog.find("Array::len")
        txt = " ".join(s.text or "" for b in f.blocks.values() for s in b.stmts)
        m = re.search(r"\(\*_1\)\.(\d+): usize", txt)
        if not m:
            raise Inconclusive("Array::len does not read a usize field of *_1 (MIR: %s)" % txt[:200])
        self.array_len_field = int(m.group(1))

    def new_interp(self):
        it = G.GcInterp(self.prog, G.MODELS_GC + EXTRA + CM.all_models())
        it.enum_discr.update(self.discr)
        return it

    def bounds(self, tier, tbl):
        return {"header/TLAB/alignment/Region/array size": "all inputs fully symbolic 64-bit (align_i32: 32-bit) under the stated preconditions; loop-free except try_mark's CAS loop (<= 2 iterations sequentially)",
                "align_usize_up": "alignment 2^sh for every sh in 0..63 (forked), and alignment 0; value symbolic 64-bit (alignments that are not powers of two are outside: no caller uses one, and the division makes the queries intractable)",
                "os page helpers": "page_size_bits in {12,14,16}",
                "determine_array_size": "element size in {0,1,2,4,8,12,16,24,32,64,4096}%s, length symbolic 64-bit" % (" + {3,5,6,7,10,20,40,48,56,128,256,1024,65536}" if tier == "thorough" else ""),
                "table": tbl.bounds_text(tier)}

    # -- values
    def addr(self, t):
        return Tup((Int(U(t), "usize"),), name="Address")

    def header(self, w):
        hw = Tup((CM.mk_atomic(Int(U(w), "usize")),), name="HeaderWord")
        return Ref(Cell(Tup((hw,), name="Header", fnames=["word"]), "header"))

    def word(self, h):
        return h.cell.v.fields[0].fields[0].fields[0].t

    def region(self, s, e):
        return self.L.make(RT + "gc.rs", "Region", start=self.addr(s), end=self.addr(e))


def addr_t(v):
    v = deref(v)
    if isinstance(v, Tup) and len(v.fields) == 1 and isinstance(v.fields[0], Int):
        return v.fields[0].t
    raise Inconclusive("Address expected, got %r" % (v,))


EXTRA = []


def xmodel(pat):
    def deco(fn):
        EXTRA.append((re.compile(pat), fn))
        return fn
    return deco


@xmodel(r"<mirror::Ref<.*> as Deref>::deref")
def m_ref_deref(it, ctx, callee, args):
    f = it.prog.fns.get("<Ref<T> as Deref>::deref") or it.prog.find("<Ref<T> as Deref>::deref")
    if f is None:
        raise Inconclusive("no MIR body for <Ref<T> as Deref>::deref")
    return it.run_fn(ctx, f, args)


@xmodel(r"<T as Default>::default")
def m_t_default(it, ctx, callee, args):
    return Int(0, "u64")          # the table's value type is u64 in this check


def num(s):
    return int(s)


# ------------------------------------------------------------------------------------------
# header word

def header_harnesses(E):
    MARK, REM = 1 << MARK_SHIFT, 1 << E.rem_shift
    LOW = 0xFFFFFFFF
    hs = []

    def shape_pre(v, b):
        return z3.And(ule(b, v), ult(v - b, 1 << 32), v & 1 == 0, b & 1 == 0)

    # H1: setup / compute_word round trip
    def sym1(ctx, it, I):
        h = E.header(I["w0"])
        m, r = I["m"] != 0, I["r"] != 0
        cw = it.call(ctx, "Header::compute_header_word", [E.addr(I["v"]), E.addr(I["b"]), m, r])
        it.call(ctx, "Header::setup_header_word", [h, E.addr(I["v"]), E.addr(I["b"]), m, r])
        O = {"computed": cw.t, "word": E.word(h)}
        O["vtbl"] = addr_t(it.call(ctx, "Header::raw_vtblptr", [h, E.addr(I["b"])]))
        O["marked"] = b2i(it.call(ctx, "Header::is_marked", [h]))
        O["remembered"] = b2i(it.call(ctx, "Header::is_remembered", [h]))
        k = it.call(ctx, "Header::vtblptr_or_fwdptr", [h, E.addr(I["b"])])
        O["kind"], O["payload"] = k.variant, addr_t(k.fields[0])
        O["word_after_reads"] = E.word(h)
        return O

    def parse_kind(r, keys):
        o = {k: num(r[k]) for k in keys}
        o["kind"], o["payload"] = r["kind"], num(r["payload"])
        return o
    nat1 = (lambda v: ["hdr", "roundtrip", v["w0"], v["v"], v["b"], v["m"], v["r"]],
            lambda r: parse_kind(r, ("computed", "word", "vtbl", "marked", "remembered", "word_after_reads")))

    def spec1(I, O):
        if O["panic"]:
            return [("header set-up / read-back panics under the precondition", False)]
        m, r = I["m"] != 0, I["r"] != 0
        return [("raw_vtblptr(setup(v, base, m, r)) != v", O["vtbl"] == I["v"]),
                ("is_marked does not read back m", (O["marked"] != 0) == m),
                ("is_remembered does not read back r", (O["remembered"] != 0) == r),
                ("setup does not store compute_word", O["word"] == O["computed"]),
                ("a shape word is decoded as a forwarding pointer", O["kind"] == "Vtblptr"),
                ("vtblptr_or_fwdptr(shape word) != Vtblptr(v)", O["payload"] == I["v"]),
                ("mark/remembered bits are not bits %d/%d of the word or the compressed shape is not the low 32 bits" % (MARK_SHIFT, E.rem_shift),
                 z3.And((O["word"] & MARK != 0) == m, (O["word"] & REM != 0) == r, O["word"] & LOW == I["v"] - I["b"])),
                ("a read accessor modifies the word", O["word_after_reads"] == O["word"])]

    def samples1(rng):
        out = []
        for _ in range(6):
            b = rng.randrange(1 << 20, 1 << 46) & ~7
            v = b + (rng.randrange(0, 1 << 32) & ~7)
            out.append({"v": v, "b": b, "m": rng.randrange(2), "r": rng.randrange(2), "w0": rng.getrandbits(64)})
        out.append({"v": 0x1000, "b": 0x1000, "m": 1, "r": 1, "w0": 0})
        out.append({"v": 0x1000 + 0xFFFFFFFE, "b": 0x1000, "m": 0, "r": 1, "w0": 1})
        return out

    hs.append(H("header/setup-roundtrip", "HeaderWord::{compute_word,setup,raw_vtblptr,is_marked,is_remembered,vtblptr_or_fwdptr} + Header wrappers",
                [("v", "usize"), ("b", "usize"), ("m", "usize"), ("r", "usize"), ("w0", "usize")],
                lambda I: z3.And(shape_pre(I["v"], I["b"]), ule(I["m"], 1), ule(I["r"], 1)),
                sym1, nat1, spec1,
                lambda I, O: [] if O["panic"] else [("marked-and-remembered word", z3.And(I["m"] == 1, I["r"] == 1)), ("plain word", z3.And(I["m"] == 0, I["r"] == 0)),
                                                    ("shape offset uses bit 31", (I["v"] - I["b"]) & (1 << 31) != 0)],
                samples1, need=["marked-and-remembered word", "plain word", "shape offset uses bit 31"]))

    # H2: bit operations on an arbitrary word
    def bitop(op, retbool):
        def sym(ctx, it, I):
            h = E.header(I["w"])
            r = it.call(ctx, "Header::" + op, [h])
            O = {"word": E.word(h)}
            if retbool:
                O["ret"] = b2i(r)
            return O

        nat = (lambda v: ["hdr", op, v["w"]], lambda r: {k: num(r[k]) for k in (("word", "ret") if retbool else ("word",))})
        return sym, nat

    def spec_try_mark(I, O):
        if O["panic"]:
            return [("try_mark panics", False)]
        w, w2, ret = I["w"], O["word"], O["ret"] != 0
        return [("try_mark changes bits other than MARK and REMEMBERED", (w ^ w2) & ~bv(MARK | REM) == 0),
                ("try_mark does not return true exactly when the mark bit was clear", ret == (w & MARK == 0)),
                ("object not marked after try_mark", w2 & MARK != 0),
                ("a failing try_mark modifies the word", z3.Implies(z3.Not(ret), w2 == w)),
                ("a successful try_mark leaves the REMEMBERED bit set", z3.Implies(ret, w2 & REM == 0))]

    def simple_spec(name, f):
        def spec(I, O):
            if O["panic"]:
                return [(name + " panics", False)]
            return [("%s: new word is not %s" % (name, f.__doc__), O["word"] == f(I["w"]))]
        return spec

    def read_spec(name, bit):
        def spec(I, O):
            if O["panic"]:
                return [(name + " panics", False)]
            return [(name + " does not return the bit", (O["ret"] != 0) == (I["w"] & bit != 0)), (name + " modifies the word", O["word"] == I["w"])]
        return spec

    def wsamples(rng):
        ws = [0, M64, MARK, REM, MARK | REM, 0xFFFFFFFC00000010, 0xFFFFFFFD00000010, 0xFFFFFFFE00000010, 0xFFFFFFFF00000010, 0x7f0000001231]
        return [{"w": w} for w in ws + [rng.getrandbits(64) for _ in range(4)]]

    s, n = bitop("try_mark", True)
    hs.append(H("header/try_mark", "HeaderWord::try_mark", [("w", "usize")], lambda I: z3.BoolVal(True), s, n, spec_try_mark,
                lambda I, O: [] if O["panic"] else [("try_mark returns true", O["ret"] == 1), ("try_mark returns false", O["ret"] == 0),
                                                    ("try_mark clears a set REMEMBERED bit", z3.And(O["ret"] == 1, I["w"] & REM != 0))],
                wsamples, need=["try_mark returns true", "try_mark returns false", "try_mark clears a set REMEMBERED bit"]))

    def f_clear_mark(w):
        """w & !MARK"""
        return w & ~bv(MARK)

    def f_set_rem(w):
        """w | REMEMBERED"""
        return w | bv(REM)

    def f_clear_rem(w):
        """w & !REMEMBERED"""
        return w & ~bv(REM)
    for op, f in (("clear_mark", f_clear_mark), ("set_remembered", f_set_rem), ("clear_remembered", f_clear_rem)):
        s, n = bitop(op, False)
        hs.append(H("header/" + op, "HeaderWord::" + op, [("w", "usize")], lambda I: z3.BoolVal(True), s, n, simple_spec(op, f),
                    lambda I, O, f=f: [] if O["panic"] else [("operation changes the word", O["word"] != I["w"]), ("operation is a no-op", O["word"] == I["w"])],
                    wsamples, need=["operation changes the word", "operation is a no-op"]))
    for op, bit in (("is_marked", MARK), ("is_remembered", REM)):
        s, n = bitop(op, True)
        hs.append(H("header/" + op, "HeaderWord::" + op, [("w", "usize")], lambda I: z3.BoolVal(True), s, n, read_spec(op, bit),
                    lambda I, O: [] if O["panic"] else [("returns true", O["ret"] == 1), ("returns false", O["ret"] == 0)],
                    wsamples, need=["returns true", "returns false"]))

    # H3: forwarding pointer install + decode of an arbitrary word
    def sym3(ctx, it, I):
        h = E.header(I["w0"])
        it.call(ctx, "Header::install_fwdptr", [h, E.addr(I["a"])])
        O = {"word": E.word(h)}
        k = it.call(ctx, "Header::vtblptr_or_fwdptr", [h, E.addr(I["b"])])
        O["kind"], O["payload"] = k.variant, addr_t(k.fields[0])
        return O

    nat3 = (lambda v: ["hdr", "install_decode", v["w0"], v["a"], v["b"]], lambda r: parse_kind(r, ("word",)))

    def spec3(I, O):
        if O["panic"]:
            return [("install_fwdptr / decode panics", False)]
        return [("install_fwdptr(a) does not store a | 1", O["word"] == I["a"] | 1),
                ("a forwarded word is decoded as a shape word", O["kind"] == "Fwdptr"),
                ("vtblptr_or_fwdptr(install_fwdptr(a)) != Fwdptr(a)", O["payload"] == I["a"])]

    hs.append(H("header/install_fwdptr", "HeaderWord::{install_fwdptr,vtblptr_or_fwdptr}", [("a", "usize"), ("b", "usize"), ("w0", "usize")],
                lambda I: I["a"] & 1 == 0, sym3, nat3, spec3,
                lambda I, O: [] if O["panic"] else [("forwarding address above 2^32", ult(1 << 40, I["a"]))],
                lambda rng: [{"a": (rng.getrandbits(47) & ~7), "b": rng.getrandbits(40) & ~7, "w0": rng.getrandbits(64)} for _ in range(5)] + [{"a": 0, "b": 0, "w0": 5}],
                need=["forwarding address above 2^32"]))

    def sym3b(ctx, it, I):
        h = E.header(I["w"])
        k = it.call(ctx, "Header::vtblptr_or_fwdptr", [h, E.addr(I["b"])])
        return {"kind": k.variant, "payload": addr_t(k.fields[0]), "word": E.word(h)}

    nat3b = (lambda v: ["hdr", "decode", v["w"], v["b"]], lambda r: parse_kind(r, ("word",)))

    def spec3b(I, O):
        if O["panic"]:
            return [("vtblptr_or_fwdptr panics although base + offset does not wrap", False)]
        w = I["w"]
        fw = O["kind"] == "Fwdptr"
        return [("word with the low bit set is not decoded as forwarding pointer (or vice versa)", z3.BoolVal(fw) == (w & 1 != 0)),
                ("wrong payload", O["payload"] == (w & ~bv(1)) if fw else O["payload"] == I["b"] + (w & LOW)),
                ("decoding modifies the word", O["word"] == w)]

    hs.append(H("header/decode", "HeaderWord::vtblptr_or_fwdptr", [("w", "usize"), ("b", "usize")],
                lambda I: ule(I["b"], M64 - LOW), sym3b, nat3b, spec3b,
                lambda I, O: [] if O["panic"] else [("decoded as Fwdptr", O["kind"] == "Fwdptr"), ("decoded as Vtblptr", O["kind"] == "Vtblptr")],
                lambda rng: [{"w": w, "b": rng.getrandbits(44) & ~7} for w in (1, 0, 0xFFFFFFFC00000010, 0x7f1234567889, 0x7f1234567888, M64)],
                need=["decoded as Fwdptr", "decoded as Vtblptr"]))

    # H4: try_install_fwdptr
    def sym4(ctx, it, I):
        h = E.header(I["w"])
        r = it.call(ctx, "Header::try_install_fwdptr", [h, E.addr(I["b"]), E.addr(I["e"]), E.addr(I["n"])])
        O = {"word": E.word(h), "kind": r.variant}
        O["payload"] = addr_t(r.fields[0]) if r.fields else bv(0)
        return O

    def parse4(r):
        p = r["ret"].split(":")
        return {"kind": p[0], "payload": (num(p[1]) if len(p) > 1 else 0), "word": num(r["word"])}
    # HeaderWord order of operands: expected, base, new
    nat4 = (lambda v: ["hdr", "try_install_fwdptr", v["w"], v["e"], v["b"], v["n"]], parse4)

    def spec4(I, O):
        if O["panic"]:
            return [("try_install_fwdptr panics under the precondition", False)]
        w = I["w"]
        ok = O["kind"] == "Forwarded"
        c = [("try_install_fwdptr does not succeed exactly when the word is the expected unforwarded word (metadata bits arbitrary)",
              z3.BoolVal(ok) == (w & LOW == I["e"] - I["b"]))]
        if ok:
            c.append(("successful try_install_fwdptr does not store new | 1", O["word"] == I["n"] | 1))
        else:
            c.append(("failing try_install_fwdptr modifies the word", O["word"] == w))
            c.append(("failing try_install_fwdptr does not return the installed address", O["payload"] == w & ~bv(1)))
        return c

    def samples4(rng):
        out = []
        for i in range(6):
            b = rng.randrange(1 << 20, 1 << 44) & ~7
            e = b + (rng.randrange(0, 1 << 32) & ~7)
            n = rng.getrandbits(46) & ~7
            w = [(rng.getrandbits(32) << 32) | (e - b), (rng.getrandbits(46) & ~7) | 1, (0xFFFFFFFC << 32) | ((e - b) ^ 8)][i % 3]
            out.append({"w": w, "e": e, "b": b, "n": n})
        return out

    hs.append(H("header/try_install_fwdptr", "HeaderWord::try_install_fwdptr + Header wrapper (argument order)",
                [("w", "usize"), ("e", "usize"), ("b", "usize"), ("n", "usize")],
                lambda I: z3.And(shape_pre(I["e"], I["b"]), I["n"] & 1 == 0), sym4, nat4, spec4,
                lambda I, O: [] if O["panic"] else [("install succeeds", O["kind"] == "Forwarded"),
                                                    ("already forwarded", z3.And(O["kind"] == "AlreadyForwarded", I["w"] & 1 == 1)),
                                                    ("succeeds on a marked+remembered word", z3.And(O["kind"] == "Forwarded", I["w"] & bv(MARK | REM) == bv(MARK | REM)))],
                samples4, need=["install succeeds", "already forwarded", "succeeds on a marked+remembered word"]))
    return hs


# ------------------------------------------------------------------------------------------
# TLAB

def tlab_harnesses(E):
    TH = RT + "threads.rs"
    MAXO = E.max_tlab_obj

    def mk_thread(it, top, end):
        tld = E.L.make(TH, "ThreadLocalData", tlab_top=CM.mk_atomic(Int(U(top), "usize")), tlab_end=CM.mk_atomic(Int(U(end), "usize")))
        cell = Cell(E.L.make(TH, "DoraThread", tld=tld), "thread")
        it.hooks["current_thread"] = lambda it_, ctx_, fn, args: Ref(cell)
        ti = E.L.index(TH, "DoraThread", "tld")
        return cell, Ref(cell, (ti,))

    def state(it, ctx, tldref):
        r = it.call(ctx, "ThreadLocalData::tlab_region", [tldref])
        gi = lambda n: E.L.index(RT + "gc.rs", "Region", n)
        rest = it.call(ctx, "ThreadLocalData::tlab_rest", [tldref])
        return addr_t(r.fields[gi("start")]), addr_t(r.fields[gi("end")]), rest.t

    def opt(r):
        if r.variant == "Some":
            return True, addr_t(r.fields[0])
        return False, bv(0)

    def sym(two):
        def f(ctx, it, I):
            cell, tldref = mk_thread(it, 0, 0)
            it.call(ctx, "ThreadLocalData::tlab_initialize", [tldref, E.addr(I["top"]), E.addr(I["end"])])
            O = {}
            O["some1"], O["r1"] = opt(it.call(ctx, "tlab::allocate", [Int(I["s1"], "usize")]))
            O["top1"], O["end1"], O["rest1"] = state(it, ctx, tldref)
            if two:
                O["some2"], O["r2"] = opt(it.call(ctx, "tlab::allocate", [Int(I["s2"], "usize")]))
                O["top2"], O["end2"], O["rest2"] = state(it, ctx, tldref)
            return O
        return f

    def nat(two):
        def parse(r):
            o = {}
            for i in (1, 2) if two else (1,):
                x = r["r%d" % i]
                o["some%d" % i], o["r%d" % i] = x != "None", (0 if x == "None" else num(x))
                for k in ("top", "end", "rest"):
                    o["%s%d" % (k, i)] = num(r["%s%d" % (k, i)])
            return o
        return (lambda v: ["tlab", v["top"], v["end"], v["s1"]] + ([v["s2"]] if two else [])), parse

    def step_spec(I, O, i, top, end, size, pre=""):
        ok = O["some%d" % i]
        t2, e2, r, rest = O["top%d" % i], O["end%d" % i], O["r%d" % i], O["rest%d" % i]
        c = [(pre + "allocation does not succeed exactly when size <= end - top", z3.BoolVal(ok) == ule(size, end - top)),
             (pre + "TLAB end moves", e2 == end), (pre + "tlab_rest != end - top", rest == e2 - t2)]
        if ok:
            c += [(pre + "returned block does not start at the old top", r == top),
                  (pre + "new top != old top + size", t2 == top + size),
                  (pre + "new top beyond end (or wrapped)", z3.And(ule(t2, end), ule(top, t2))),
                  (pre + "returned block not inside the old [top, end)", z3.And(ule(top, r), ule(r + size, end), ule(r, r + size))),
                  (pre + "aligned top and size give an unaligned block or top", z3.Implies(z3.And(top & 7 == 0, size & 7 == 0), z3.And(r & 7 == 0, t2 & 7 == 0)))]
        else:
            c += [(pre + "failing allocation changes the TLAB", t2 == top)]
        return c

    def spec1(I, O):
        if O["panic"]:
            return [("tlab::allocate panics although size < MAX_TLAB_OBJECT_SIZE and top <= end", z3.Not(ult(I["s1"], MAXO)))]
        return [("allocate accepts size >= MAX_TLAB_OBJECT_SIZE", ult(I["s1"], MAXO))] + step_spec(I, O, 1, I["top"], I["end"], I["s1"])

    def spec2(I, O):
        if O["panic"]:
            return [("tlab::allocate panics although sizes < MAX_TLAB_OBJECT_SIZE and top <= end", z3.Not(z3.And(ult(I["s1"], MAXO), ult(I["s2"], MAXO))))]
        c = step_spec(I, O, 1, I["top"], I["end"], I["s1"], "first: ") + step_spec(I, O, 2, O["top1"], O["end1"], I["s2"], "second: ")
        if O["some1"] and O["some2"]:
            c.append(("two consecutive blocks overlap", z3.And(ule(O["r1"] + I["s1"], O["r2"]), ule(O["r2"] + I["s2"], I["end"]))))
        return c

    def samples(two):
        def f(rng):
            out = []
            for s1, s2 in ((64, 5000), (0, 8), (4096, 1), (8191, 8191), (8192, 8), (16, 16), (4104, 8)):
                top = rng.randrange(1 << 20, 1 << 46) & ~7
                v = {"top": top, "end": top + rng.choice([0, 8, 4096, 32768]), "s1": s1}
                if two:
                    v["s2"] = s2
                out.append(v)
            return out
        return f

    pre = lambda I: ule(I["top"], I["end"])
    tw1 = lambda I, O: [("allocate refuses an oversized request", True)] if O["panic"] else [("allocation succeeds", O["some1"]), ("allocation fails", not O["some1"]),
                                                                                          ("allocation fills the TLAB exactly", z3.And(O["some1"], O["top1"] == I["end"], I["s1"] != 0))]
    tw2 = lambda I, O: [] if O["panic"] else [("both allocations succeed", z3.And(O["some1"] and O["some2"], I["s1"] != 0, I["s2"] != 0)),
                                               ("first succeeds, second fails", O["some1"] and not O["some2"])]
    return [H("tlab/allocate", "tlab::allocate + ThreadLocalData::{tlab_initialize,tlab_region,tlab_rest} + Region::size + Address::offset",
              [("top", "usize"), ("end", "usize"), ("s1", "usize")], pre, sym(False), nat(False), spec1, tw1, samples(False),
              need=["allocate refuses an oversized request", "allocation succeeds", "allocation fails", "allocation fills the TLAB exactly"]),
            H("tlab/allocate-twice", "tlab::allocate x2 (disjoint blocks)", [("top", "usize"), ("end", "usize"), ("s1", "usize"), ("s2", "usize")],
              pre, sym(True), nat(True), spec2, tw2, samples(True), need=["both allocations succeed", "first succeeds, second fails"])]


# ------------------------------------------------------------------------------------------
# alignment helpers

def align_harnesses(E, tier):
    hs = []
    ANY_MAX = 24 if tier == "quick" else 64

    def fn1(name, mirname, args_of, natargs_of, ins, pre, spec, twins, samples, need, retbool=False, hooks=None):
        def sym(ctx, it, I):
            if hooks:
                hooks(it, I)
            r = it.call(ctx, mirname, args_of(I))
            return {"ret": b2i(r) if retbool else (z3.ZeroExt(32, r.t) if r.w == 32 else r.t)}

        nat = (lambda v: ["align", name] + list(natargs_of(v)), lambda r: {"ret": num(r["ret"])})
        hs.append(H("align/" + name, mirname, ins, pre, sym, nat, spec, twins, samples, need=need))

    def up_spec(what, v_of, a_of, nowrap):
        def spec(I, O):
            v, a = v_of(I), a_of(I)
            if O["panic"]:
                return [("%s panics although value + alignment does not wrap" % what, z3.Not(nowrap(I)))]
            r = O["ret"]
            return [("%s accepts (wraps on) a value beyond the no-wrap precondition" % what, nowrap(I)),
                    ("%s: result < argument" % what, ule(v, r)),
                    ("%s: result not aligned" % what, z3.URem(r, a) == 0),
                    ("%s: result >= argument + alignment" % what, ult(r - v, a))]
        return spec

    # alignment = 2^sh: the executor forks over the 64 exponents (division/multiplication by a constant per path)
    def conc_arg(which, lo, hi):
        def hook(it, I):
            it._c03_conc = (which, lo, hi)
        return hook
    A2 = lambda I: bv(1) << I["sh"]
    nowrap_ua = lambda I: ule(I["v"], bv(M64) - A2(I))      # `value + align` is evaluated first

    def sym_up(a_of, lo, hi, key):
        def sym(ctx, it, I):
            k = ctx.concretize(Int(I[key], "usize"), lo, hi)
            a = (1 << k) if key == "sh" else k
            return {"ret": it.call(ctx, "mem::align_usize_up", [Int(I["v"], "usize"), Int(a, "usize")]).t}
        return sym

    def nat_up(a_of):
        return (lambda v: ["align", "align_usize_up", v["v"], a_of(v)], lambda r: {"ret": num(r["ret"])})
    hs.append(H("align/align_usize_up", "mem::align_usize_up", [("v", "usize"), ("sh", "usize")], lambda I: ult(I["sh"], 64),
                sym_up(None, 0, 64, "sh"), nat_up(lambda v: 1 << v["sh"]), up_spec("align_usize_up", lambda I: I["v"], A2, nowrap_ua),
                lambda I, O: [("align_usize_up panics (debug) beyond the precondition: value + align > usize::MAX", True)] if O["panic"] else
                [("value already aligned", z3.And(O["ret"] == I["v"], I["sh"] == 3)), ("value rounded up", z3.And(O["ret"] != I["v"], I["sh"] == 3))],
                lambda rng: [{"v": v, "sh": a} for v, a in ((13, 3), (16, 3), (0, 3), (M64 - 8, 3), (M64 - 7, 3), (M64 - 3, 3), (M64, 0), (M64 - 1, 0), (5, 0), (1 << 63, 63),
                                                          ((1 << 63) - 1, 63), (rng.getrandbits(60), 12), (rng.getrandbits(62), 16))],
                need=["align_usize_up panics (debug) beyond the precondition: value + align > usize::MAX", "value already aligned", "value rounded up"]))

    def spec_zero(I, O):
        if O["panic"]:
            return [("align_usize_up(v, 0) panics", False)]
        return [("align_usize_up(v, 0) != v", O["ret"] == I["v"])]
    fn1("align_usize_up", "mem::align_usize_up", lambda I: [Int(I["v"], "usize"), Int(0, "usize")], lambda v: [v["v"], 0],
        [("v", "usize")], lambda I: z3.BoolVal(True), spec_zero, lambda I, O: [("alignment 0 returns", not O["panic"])],
        lambda rng: [{"v": 0}, {"v": 13}, {"v": M64}], ["alignment 0 returns"])
    hs[-1].name = "align/align_usize_up-zero"

    # align_i32 (as used for sizes/offsets: non-negative value, alignment 2^sh forked over sh in 0..16)
    def spec_i32(I, O):
        v, a = I["v"], z3.BitVecVal(1, 32) << I["sh"]
        nowrap = v + a >= v          # signed, 32 bit; `value + align` is evaluated first
        if O["panic"]:
            return [("align_i32 panics although value + align does not overflow", z3.Not(nowrap))]
        r = z3.Extract(31, 0, O["ret"])
        return [("align_i32 accepts an overflowing sum", nowrap), ("align_i32: result < argument", r >= v), ("align_i32: result not aligned", r & (a - 1) == 0),
                ("align_i32: result >= argument + alignment", r - v < a)]

    def sym_i32(ctx, it, I):
        k = ctx.concretize(Int(I["sh"], "i32"), 0, 17)
        return {"ret": z3.ZeroExt(32, it.call(ctx, "mem::align_i32", [Int(I["v"], "i32"), Int(1 << k, "i32")]).t)}

    nat_i32 = (lambda v: ["align", "align_i32", v["v"], 1 << v["sh"]], lambda r: {"ret": num(r["ret"])})
    hs.append(H("align/align_i32", "mem::align_i32", [("v", "i32"), ("sh", "i32")], lambda I: z3.And(I["v"] >= 0, I["sh"] >= 0, I["sh"] <= 16), sym_i32, nat_i32, spec_i32,
                lambda I, O: [("align_i32 overflow panic reachable", True)] if O["panic"] else [("rounded up", z3.Extract(31, 0, O["ret"]) != I["v"])],
                lambda rng: [{"v": v, "sh": a} for v, a in ((13, 3), (16, 3), (0, 4), (2147483647, 3), (2147483640, 3), (2147483639, 3), (77, 2), (5, 0))],
                need=["align_i32 overflow panic reachable", "rounded up"]))

    def bool_fn(name, mirname, args_of, natargs_of, ins, pre, want, samples, hooks=None, panic_ok=None):
        def spec(I, O):
            if O["panic"]:
                return [(name + " panics", panic_ok(I) if panic_ok else False)]
            c = [(name + " wrong", (O["ret"] != 0) == want(I))]
            if panic_ok:
                c.append((name + " accepts an out-of-range shift", z3.Not(panic_ok(I))))
            return c
        fn1(name, mirname, args_of, natargs_of, ins, pre, spec,
            lambda I, O: [] if O["panic"] else [("true", O["ret"] == 1), ("false", O["ret"] == 0)], samples, ["true", "false"], retbool=True, hooks=hooks)

    bool_fn("is_word_aligned", "mem::is_word_aligned", lambda I: [Int(I["v"], "usize")], lambda v: [v["v"]], [("v", "usize")], lambda I: z3.BoolVal(True),
            lambda I: I["v"] & 7 == 0, lambda rng: [{"v": x} for x in (0, 8, 12, M64, rng.getrandbits(64))])
    bool_fn("is_power_of_2_aligned", "mem::is_power_of_2_aligned", lambda I: [Int(I["v"], "usize"), Int(I["bits"], "usize")], lambda v: [v["v"], v["bits"]],
            [("v", "usize"), ("bits", "usize")], lambda I: z3.BoolVal(True), lambda I: I["v"] & ((bv(1) << I["bits"]) - 1) == 0,
            lambda rng: [{"v": v, "bits": b} for v, b in ((4096, 12), (4097, 12), (0, 63), (1 << 63, 63), (12, 2), (12, 3), (5, 64), (5, 0))],
            panic_ok=lambda I: z3.Not(ult(I["bits"], 64)))
    bool_fn("is_page_aligned", "is_page_aligned", lambda I: [Int(I["v"], "usize")], lambda v: [v["v"]], [("v", "usize")], lambda I: z3.BoolVal(True),
            lambda I: I["v"] & 0xFFFF == 0, lambda rng: [{"v": x} for x in (0, 65536, 65537, 4096, M64, rng.getrandbits(64) & ~0xFFFF)])

    def page_hook(it, I):
        it.hooks["page::page_size_bits"] = lambda it_, ctx_, fn, args: Int(I["pb"], "usize")
        it.hooks["page::page_size"] = lambda it_, ctx_, fn, args: Int(bv(1) << I["pb"], "usize")
    pbpre = lambda I: z3.Or(I["pb"] == 12, I["pb"] == 14, I["pb"] == 16)
    # native replay host: 4 KiB pages only
    os_samples = lambda rng: [{"v": x, "pb": 12} for x in (0, 1, 4095, 4096, 4097, M64 - 4096, M64 - 4095, rng.getrandbits(50))]
    bool_fn("is_os_page_aligned", "mem::is_os_page_aligned", lambda I: [Int(I["v"], "usize")], lambda v: [v["v"]], [("v", "usize"), ("pb", "usize")], pbpre,
            lambda I: I["v"] & ((bv(1) << I["pb"]) - 1) == 0, os_samples, hooks=page_hook)
    page = lambda I: bv(1) << I["pb"]
    fn1("os_page_align_up", "mem::os_page_align_up", lambda I: [Int(I["v"], "usize")], lambda v: [v["v"]], [("v", "usize"), ("pb", "usize")], pbpre,
        up_spec("os_page_align_up", lambda I: I["v"], page, lambda I: ule(I["v"], bv(M64) - page(I))),
        lambda I, O: [("os_page_align_up panics (debug) beyond the precondition", True)] if O["panic"] else [("rounded up", O["ret"] != I["v"]), ("64 KiB pages", I["pb"] == 16)],
        os_samples, ["os_page_align_up panics (debug) beyond the precondition", "rounded up", "64 KiB pages"], hooks=page_hook)
    P64 = bv(65536)
    fn1("align_page_up", "align_page_up", lambda I: [Int(I["v"], "usize")], lambda v: [v["v"]], [("v", "usize")], lambda I: z3.BoolVal(True),
        up_spec("align_page_up", lambda I: I["v"], lambda I: P64, lambda I: ule(I["v"], M64 - 65536)),
        lambda I, O: [("align_page_up panics (debug) beyond the precondition", True)] if O["panic"] else [("rounded up", O["ret"] != I["v"])],
        lambda rng: [{"v": x} for x in (0, 1, 65535, 65536, 65537, M64 - 65536, M64 - 65535, rng.getrandbits(48))],
        ["align_page_up panics (debug) beyond the precondition", "rounded up"])

    def spec_down(I, O):
        if O["panic"]:
            return [("align_page_down panics", False)]
        r, v = O["ret"], I["v"]
        return [("align_page_down: result > argument", ule(r, v)), ("align_page_down: not aligned", r & 0xFFFF == 0), ("align_page_down: more than a page below", ult(v - r, 65536))]
    fn1("align_page_down", "align_page_down", lambda I: [Int(I["v"], "usize")], lambda v: [v["v"]], [("v", "usize")], lambda I: z3.BoolVal(True), spec_down,
        lambda I, O: [] if O["panic"] else [("rounded down", O["ret"] != I["v"])], lambda rng: [{"v": x} for x in (0, 1, 65535, 65536, 65537, M64)], ["rounded down"])
    return hs


# ------------------------------------------------------------------------------------------
# Address / Region

def region_harnesses(E):
    hs = []
    gi = lambda n: E.L.index(RT + "gc.rs", "Region", n)

    def addr_fn(op, f, nowrap, ins=(("a", "usize"), ("x", "usize")), samples=None, panic_what="wraps"):
        def sym(ctx, it, I):
            args = [E.addr(I["a"])] + ([E.addr(I["x"])] if op == "offset_from" else [Int(I["x"], "isize" if op == "ioffset" else "usize")])
            r = it.call(ctx, "Address::" + op, args)
            return {"ret": r.t if isinstance(r, Int) else addr_t(r)}

        nat = (lambda v: ["addr", op, v["a"], v["x"]], lambda r: {"ret": num(r["ret"])})

        def spec(I, O):
            if O["panic"]:
                return [("Address::%s panics although the result does not wrap" % op, z3.Not(nowrap(I)))]
            return [("Address::%s accepts operands whose result %s" % (op, panic_what), nowrap(I)), ("Address::%s wrong result" % op, O["ret"] == f(I))]
        hs.append(H("addr/" + op, "Address::" + op, list(ins), lambda I: z3.BoolVal(True), sym, nat, spec,
                    lambda I, O: [("debug build refuses a wrapping operand", True)] if O["panic"] else [("returns", True)],
                    samples or (lambda rng: [{"a": a, "x": x} for a, x in ((4096, 16), (16, 4096), (M64, 1), (M64 - 8, 8), (0, 0), (rng.getrandbits(47), rng.getrandbits(20)))]),
                    need=["debug build refuses a wrapping operand", "returns"]))

    addr_fn("offset", lambda I: I["a"] + I["x"], lambda I: ule(I["a"], I["a"] + I["x"]))
    addr_fn("offset_from", lambda I: I["a"] - I["x"], lambda I: ule(I["x"], I["a"]), panic_what="is negative (self < base)")
    addr_fn("sub", lambda I: I["a"] - I["x"], lambda I: ule(I["x"], I["a"]))
    addr_fn("add_ptr", lambda I: I["a"] + 8 * I["x"], lambda I: z3.And(ult(I["x"], 1 << 61), ule(I["a"], I["a"] + 8 * I["x"])),
            samples=lambda rng: [{"a": a, "x": x} for a, x in ((4096, 2), (M64 - 15, 2), (M64 - 16, 2), (0, 1 << 61), (0, (1 << 61) - 1), (8, 0))])
    addr_fn("sub_ptr", lambda I: I["a"] - 8 * I["x"], lambda I: z3.And(ult(I["x"], 1 << 61), ule(8 * I["x"], I["a"])),
            samples=lambda rng: [{"a": a, "x": x} for a, x in ((4096, 2), (15, 2), (16, 2), (0, 1 << 61), (M64, (1 << 61) - 1))])

    # Region: new/contains/valid_top/size/empty consistent
    def sym_r(ctx, it, I):
        r = it.call(ctx, "Region::new", [E.addr(I["s"]), E.addr(I["e"])])
        rr = Ref(Cell(r, "region"))
        O = {"start": addr_t(it.call(ctx, "Region::start", [rr])), "end": addr_t(it.call(ctx, "Region::end", [rr]))}
        O["contains"] = b2i(it.call(ctx, "Region::contains", [rr, E.addr(I["x"])]))
        O["valid_top"] = b2i(it.call(ctx, "Region::valid_top", [rr, E.addr(I["x"])]))
        O["size"] = it.call(ctx, "Region::size", [rr]).t
        O["empty"] = b2i(it.call(ctx, "Region::empty", [rr]))
        return O

    nat_r = (lambda v: ["region", "all", v["s"], v["e"], v["x"]], lambda r: {k: num(r[k]) for k in ("start", "end", "contains", "valid_top", "size", "empty")})

    def spec_r(I, O):
        s, e, x = I["s"], I["e"], I["x"]
        if O["panic"]:
            return [("Region::new / accessors panic although start <= end", z3.Not(ule(s, e)))]
        cont = O["contains"] != 0
        return [("Region::new accepts start > end", ule(s, e)), ("Region::new does not keep start/end", z3.And(O["start"] == s, O["end"] == e)),
                ("contains(x) != (start <= x < end)", cont == z3.And(ule(s, x), ult(x, e))),
                ("valid_top(x) != (start <= x <= end)", (O["valid_top"] != 0) == z3.And(ule(s, x), ule(x, e))),
                ("size != end - start", O["size"] == e - s),
                ("contains/size inconsistent: a contained address is not less than size bytes above start", z3.Implies(cont, ult(x - s, O["size"]))),
                ("an address with x - start < size, x >= start is not contained", z3.Implies(z3.And(ule(s, x), ult(x - s, O["size"])), cont)),
                ("empty != (size == 0)", (O["empty"] != 0) == (O["size"] == 0))]

    hs.append(H("region/contains-size", "Region::{new,start,end,contains,valid_top,size,empty}", [("s", "usize"), ("e", "usize"), ("x", "usize")],
                lambda I: z3.BoolVal(True), sym_r, nat_r, spec_r,
                lambda I, O: [("Region::new refuses start > end (debug)", True)] if O["panic"] else [("contained", O["contains"] == 1), ("not contained", O["contains"] == 0),
                                                                                                   ("x == end is a valid top but not contained", z3.And(O["valid_top"] == 1, O["contains"] == 0))],
                lambda rng: [{"s": s, "e": e, "x": x} for s, e, x in ((16, 32, 31), (16, 32, 32), (16, 32, 15), (16, 16, 16), (32, 16, 20), (0, M64, M64 - 1), (0, M64, M64))],
                need=["Region::new refuses start > end (debug)", "contained", "not contained", "x == end is a valid top but not contained"]))

    # two regions: disjunct / overlaps / fully_contains against membership of an arbitrary address
    def sym_2(ctx, it, I):
        r1, r2 = Ref(Cell(E.region(I["s1"], I["e1"]), "r1")), Ref(Cell(E.region(I["s2"], I["e2"]), "r2"))
        return {"disjunct": b2i(it.call(ctx, "Region::disjunct", [r1, r2])), "overlaps": b2i(it.call(ctx, "Region::overlaps", [r1, r2])),
                "fully": b2i(it.call(ctx, "Region::fully_contains", [r1, r2]))}

    nat_2 = (lambda v: ["region", "pairs", v["s1"], v["e1"], v["s2"], v["e2"]], lambda r: {k: num(r[k]) for k in ("disjunct", "overlaps", "fully")})

    def spec_2(I, O):
        if O["panic"]:
            return [("Region predicates panic", False)]
        s1, e1, s2, e2 = I["s1"], I["e1"], I["s2"], I["e2"]
        x = z3.BitVec("x!any", 64)
        in1, in2 = z3.And(ule(s1, x), ult(x, e1)), z3.And(ule(s2, x), ult(x, e2))
        dis, full = O["disjunct"] != 0, O["fully"] != 0
        mx = z3.If(ult(s1, s2), s2, s1)
        return [("regions called disjunct share an address", z3.Implies(dis, z3.Not(z3.And(in1, in2)))),
                ("non-empty regions not called disjunct share no address", z3.Implies(z3.And(z3.Not(dis), ult(s1, e1), ult(s2, e2)),
                                                                                     z3.And(ule(s1, mx), ult(mx, e1), ule(s2, mx), ult(mx, e2)))),
                ("overlaps != !disjunct", (O["overlaps"] != 0) == z3.Not(dis)),
                ("fully_contains(r, o) but an address of o is outside r", z3.Implies(full, z3.Implies(in2, in1)))]

    hs.append(H("region/pairs", "Region::{disjunct,overlaps,fully_contains}", [("s1", "usize"), ("e1", "usize"), ("s2", "usize"), ("e2", "usize")],
                lambda I: z3.And(ule(I["s1"], I["e1"]), ule(I["s2"], I["e2"])), sym_2, nat_2, spec_2,
                lambda I, O: [] if O["panic"] else [("disjunct", O["disjunct"] == 1), ("overlapping", O["overlaps"] == 1), ("fully contained", O["fully"] == 1)],
                lambda rng: [{"s1": a, "e1": b, "s2": c, "e2": d} for a, b, c, d in ((0, 16, 16, 32), (0, 17, 16, 32), (0, 64, 16, 32), (16, 32, 0, 64), (8, 8, 0, 64), (0, 64, 0, 64))],
                need=["disjunct", "overlapping", "fully contained"]))
    return hs


# ------------------------------------------------------------------------------------------
# array size

def array_harnesses(E, tier):
    HDR = 16

    def sym(es):
        def f(ctx, it, I):
            fields = [Int(bv(0), "usize")] * (E.array_len_field + 1)
            fields[E.array_len_field] = Int(I["len"], "usize")
            obj = Ref(Cell(Tup(fields, name="Array"), "array-object"))
            e = Int(I["elem"], "usize") if es is None else Int(es, "usize")
            return {"ret": it.call(ctx, "determine_array_size", [obj, e]).t}
        return f

    def nat(es):
        return (lambda v: ["arraysize", v["elem"] if es is None else es, v["len"]], lambda r: {"ret": num(r["ret"])})

    def spec(es):
        def f(I, O):
            e = z3.ZeroExt(64, I["elem"] if es is None else bv(es))
            need = z3.BitVecVal(HDR, 128) + e * z3.ZeroExt(64, I["len"])
            nowrap = z3.ULE(need, z3.BitVecVal(M64 - 8, 128))      # align_usize_up evaluates calc + 8 first
            if O["panic"]:
                return [("determine_array_size panics although header + len*elem + 7 fits 64 bits", z3.Not(nowrap))]
            r = z3.ZeroExt(64, O["ret"])
            return [("determine_array_size wraps instead of refusing", nowrap), ("array size < header + len*elem", z3.ULE(need, r)),
                    ("array size not word aligned", O["ret"] & 7 == 0), ("array size >= header + len*elem + 8", z3.ULT(r - need, 8))]
        return f

    tw = lambda I, O: [("size computation overflows (debug build panics) beyond the precondition", True)] if O["panic"] else [("padding added", O["ret"] & 7 == 0)]
    hs = []
    sizes = [0, 1, 2, 4, 8, 12, 16, 24, 32, 64, 4096]
    if tier == "thorough":
        # a symbolic element size makes the 64x64-bit overflow-checked product intractable: more concrete sizes instead
        sizes += [3, 5, 6, 7, 10, 20, 40, 48, 56, 128, 256, 1024, 65536]
    for es in sizes:
        hs.append(H("arraysize/elem=%d" % es, "determine_array_size + mem::align_usize_up + Array::len", [("len", "usize")], lambda I: z3.BoolVal(True),
                    sym(es), nat(es), spec(es), tw,
                    lambda rng, es=es: [{"len": n} for n in (0, 1, 3, 7, (1 << 61) + 1, M64, rng.getrandbits(40))],
                    need=["padding added"] + (["size computation overflows (debug build panics) beyond the precondition"] if es else [])))
    return hs


def harnesses(E, tier):
    return header_harnesses(E) + tlab_harnesses(E) + align_harnesses(E, tier) + region_harnesses(E) + array_harnesses(E, tier)
