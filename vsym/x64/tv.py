"""Common part of C01/C02: lifting a kernel with one back end, outcome terms of a path,
translator validation against the real executable, witness -> driver arguments."""
import re

import z3

from . import build, kern, sem
from .sem import BV, Unsupported

NONE = 0xFFFFFFFF


class Lifted:
    def __init__(self, kernel, backend, prog, layout, traps, limits=None):
        self.k = kernel
        self.backend = backend
        self.prog = prog
        self.setup = kern.Setup(kernel, layout, traps, backend)
        self.ex = sem.Explorer(prog, self.setup.env, limits or sem.Limits(max_visits=6, max_paths=300, deadline_s=240))
        self.paths = self.ex.explore(build.mangle(kernel.name))
        self.assumptions = list(self.setup.env.assumptions)

    # --- outcome of a path as terms: (kind code BV32, value BV, heap)
    def kind(self, p):
        return p.term.kind

    def trap_kind(self, p):
        t = p.term.trap
        return z3.ZeroExt(32 - t.size(), t) if t.size() < 32 else t

    def value(self, p):
        return self.setup.ret_value(p)

    def describe(self, p, model):
        """concrete outcome of path p under a model -> ('ret', text) | ('trap', k) | (kind,)"""
        if p.term.kind == "trap":
            return ("trap", model.eval(p.term.trap, model_completion=True).as_long())
        if p.term.kind == "return":
            v = self.value(p)
            txt = "r=" + kern.fmt_value(self.k.ret, model.eval(v, model_completion=True).as_long() if v is not None else 0) + "\n"
            for n, t in self.k.arrays():
                ln = model.eval(self.setup.lens[n], model_completion=True).as_long()
                pv = model.eval(self.setup.vals[n], model_completion=True).as_long()
                els = []
                for j in range(ln):
                    e = model.eval(sem.heap_load(p.heap, BV(pv + 16 + j * t.elem.bytes, 64), t.elem.bytes), model_completion=True).as_long()
                    els.append(kern.fmt_value(t.elem, e))
                txt += "%s=%s\n" % (n, "".join("," + e for e in els))
            return ("ret", txt)
        if p.term.kind == "fault":
            return ("fault", p.term.what)
        return (p.term.kind,)


def observe(out, traps):
    """result of a real run -> ('ret', stdout) | ('trap', k) | ('crash', signal) | ('hang',) | ('other', ...)"""
    if out.get("timeout"):
        return ("hang",)
    if out["signal"] is not None:
        return ("crash", out["signal"])
    st = out["status"]
    if st is not None and 101 <= st < 101 + len(traps):
        return ("trap", st - 101)
    if st == 0:
        return ("ret", out["stdout"])
    return ("other", st, out["stdout"][:100], out["stderr"][:160])


_POOL = {32: [0, 1, -1, 2, 3, -2, -(1 << 31), (1 << 31) - 1, -(1 << 31) + 1, 46341, 65536, -65536, 31, 32, 33, 7, -7, 1 << 30],
         64: [0, 1, -1, 2, 3, -2, -(1 << 63), (1 << 63) - 1, -(1 << 63) + 1, 1 << 31, 1 << 32, 3037000500, -(1 << 32), 63, 64, 7, -7,
              1 << 62],
         8: [0, 1, 2, 127, 128, 255]}


def _f64(x):
    import struct
    return struct.unpack("<Q", struct.pack("<d", x))[0]


def _f32(x):
    import struct
    return struct.unpack("<I", struct.pack("<f", x))[0]


_FVALS = [0.0, -0.0, 0.5, -0.5, 0.99999, 1.0, -1.0, 5.75, -7.9, 2147483647.0, 2147483648.0, -2147483648.0, -2147483649.0,
          -2147483648.5, 2147483647.5, 3000000000.0, 4294967296.0, 4294967301.0, -4294967301.0, 9223372036854775807.0,
          9223372036854775808.0, -9223372036854775808.0, -9223372036854777856.0, 1.8446744073709552e19, 1.0e30, -1.0e30,
          float("inf"), float("-inf"), 5e-324, 16777217.0, 9007199254740993.0]
# boundary bit patterns incl. NaNs with different payloads and signs, largest value below 2^31 / 2^63
FLOAT_PATTERNS = {
    64: [_f64(x) for x in _FVALS] + [0x7FF8000000000000, 0xFFF8000000000000, 0x7FF0000000000001, 0x7FFFFFFFFFFFFFFF,
                                     0x41DFFFFFFFFFFFFF, 0x43DFFFFFFFFFFFFF, 0xC1E0000000200000, 0xC3E0000000000001],
    32: [_f32(x) for x in _FVALS if abs(x) < 3e38 or x != x or abs(x) == float("inf")] +
        [0x7FC00000, 0xFFC00000, 0x7F800001, 0x7FFFFFFF, 0x4EFFFFFF, 0x5EFFFFFF, 0xCF000001, 0xDF000001],
}


def witness_args(lifted, extra, timeout_ms=30000, probes=60):
    """model of assumptions + extra with arrays short enough for the driver -> (model, argv, conc).
    Boundary-value candidates for the scalar arguments are tried first (each makes the query
    nearly concrete); the unconstrained search is the fall-back.  Only used to obtain witnesses,
    never for a verdict."""
    import random
    s = z3.Solver()
    s.set("timeout", min(timeout_ms, 5000))
    s.add(*lifted.assumptions)
    s.add(*extra)
    s.add(*kern.array_elem_constraints(lifted.k, lifted.setup))
    scal = [(n, t) for n, t in lifted.k.params if t.kind in ("int", "u8", "float")]
    rnd = random.Random(hash(lifted.k.name) & 0xFFFF)
    m = None
    if scal and probes:
        for i in range(probes):
            s.push()
            for n, t in scal:
                v = rnd.choice(FLOAT_PATTERNS[t.bits] if t.kind == "float" else _POOL[t.bits])
                s.add(lifted.setup.vals[n] == BV(v % (1 << t.bits), t.bits))
            for n, t in lifted.k.arrays():
                s.add(lifted.setup.lens[n] == BV(rnd.choice([0, 1, 2, 3, 5]), 64))
            r = s.check()
            if r == z3.sat:
                m = s.model()
                s.pop()
                break
            s.pop()
    if m is None:
        s.set("timeout", timeout_ms)
        if s.check() != z3.sat:
            return None, None, None
        m = s.model()
    av, conc = kern.argv_of(lifted.k, lifted.setup, m, 0)
    return m, av, conc


def boundary_inputs(kernel, quick=False):
    """fixed boundary inputs for kernels with one float or (for int->float) one integer parameter"""
    if not any("loat" in o for o in kernel.ops()):
        return []
    out = []
    if len(kernel.params) == 1:
        n, t = kernel.params[0]
        vals = FLOAT_PATTERNS[t.bits] if t.kind == "float" else _POOL[t.bits] + [(1 << 24) + 1, (1 << 53) + 1, -(1 << 24) - 1, 123456789]
        if quick and t.kind == "float":
            f = _f64 if t.bits == 64 else _f32
            vals = [f(x) for x in (5.75, -7.9, 2147483647.0 if t.bits == 64 else 2147483520.0, 2147483648.0, -2147483648.0,
                                   -2147483649.0 if t.bits == 64 else -2147483904.0, 3000000000.0, 4294967301.0 if t.bits == 64 else 4294967808.0,
                                   9223372036854775808.0, -9223372036854775808.0, 1.0e30, float("inf"), float("-inf"))]
            vals += [0x7FF8000000000000, 0xFFF0000000000001] if t.bits == 64 else [0x7FC00000, 0xFF800001]
        elif quick:
            vals = [0, 1, -1, -(1 << (t.bits - 1)), (1 << (t.bits - 1)) - 1, (1 << 24) + 1, (1 << 53) + 1 if t.bits == 64 else 123456789, -7]
        out = [{n: v % (1 << t.bits)} for v in vals]
    else:
        fl = [(n, t) for n, t in kernel.params if t.kind == "float"]
        for i in range(8):
            d = {}
            for n, t in kernel.params:
                pool = FLOAT_PATTERNS[t.bits] if t.kind == "float" else _POOL.get(t.bits, [0, 1])
                d[n] = pool[(i * 7 + len(d) * 3) % len(pool)] % (1 << t.bits)
            out.append(d)
    return out


def validate_inputs(lifted, which, traps, inputs, side_assumptions=()):
    """run the lifted code (by model evaluation) and the real executable on given concrete scalar
    inputs -> (runs, mismatches)"""
    runs, bad = 0, []
    for inp in inputs:
        s = z3.Solver()
        s.set("timeout", 20000)
        s.add(*lifted.assumptions)
        s.add(*side_assumptions)
        for n, v in inp.items():
            s.add(lifted.setup.vals[n] == BV(v, lifted.setup.vals[n].size()))
        if s.check() != z3.sat:
            continue
        m = s.model()
        ps = [p for p in lifted.paths if z3.is_true(m.eval(p.pc(), model_completion=True))]
        if len(ps) != 1:
            bad.append({"kernel": lifted.k.name, "backend": lifted.backend, "input": inp, "lifted": "%d paths" % len(ps), "real": None,
                        "source": lifted.k.source()})
            continue
        av, conc = kern.argv_of(lifted.k, lifted.setup, m, which)
        want = lifted.describe(ps[0], m)
        got = observe(lifted.prog.run(av, timeout=60, env={"DORA_FLAGS": "--max-heap-size=16M"}), traps)
        runs += 1
        if tuple(want) != tuple(got):
            bad.append({"kernel": lifted.k.name, "backend": lifted.backend, "argv": av, "lifted": list(want), "real": list(got),
                        "source": lifted.k.source()})
    return runs, bad


def validate_paths(lifted, which, traps, side_assumptions=(), max_paths=12):
    """translator validation: for (up to max_paths) return/trap paths of the lifted code take a
    model of the path condition, run the real executable on those inputs and compare with the
    outcome the lifted path predicts.  -> (runs, mismatches[list of dict])"""
    runs, bad = 0, []
    chosen = [p for p in lifted.paths if p.term.kind in ("return", "trap")][:max_paths]
    for p in chosen:
        m, av, conc = witness_args(lifted, [p.pc()] + list(side_assumptions))
        if m is None or av is None:
            continue
        av[0] = str(which)
        want = lifted.describe(p, m)
        # validation runs only (never replays of counterexamples): a small heap makes the runtime
        # start twice as fast; the kernels allocate at most a few short arrays
        got = observe(lifted.prog.run(av, timeout=60, env={"DORA_FLAGS": "--max-heap-size=16M"}), traps)
        runs += 1
        if tuple(want) != tuple(got):
            bad.append({"kernel": lifted.k.name, "backend": lifted.backend, "argv": av, "lifted": list(want), "real": list(got),
                        "source": lifted.k.source()})
    return runs, bad
