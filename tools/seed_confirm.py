#!/usr/bin/env python3
"""tools/seed_confirm.py <seed dir> [--worktree <dir>]  — confirms a seeded change independently of its author:
the patch applies to /repo's HEAD, the workspace still builds, the pinned suite still passes
(cargo nextest, 992 tests), and — for demonstrations that are Rust tests (seed_*_demo.rs) — the demonstration
fails with the change and passes without it.  Results go to the seed's meta.json under "confirmed"."""
import glob, json, os, re, shutil, subprocess, sys, time

def sh(cmd, cwd=None, timeout=7200):
    return subprocess.run(cmd, shell=True, text=True, capture_output=True, cwd=cwd, timeout=timeout)

def crate_of(patch):
    files = re.findall(r"^\+\+\+ b/(\S+)", open(patch).read(), flags=re.M)
    return sorted(set(f.split("/")[0] for f in files)), files

def run_demo(wt, d, crates):
    demos = glob.glob(os.path.join(d, "seed_*_demo.rs"))
    if not demos:
        return None
    crate = [c for c in crates if os.path.isdir(os.path.join(wt, c, "src"))]
    if not crate:
        return None
    c = crate[0]
    # position.rs lives in a binary crate: its demo tests are written against the crate that exposes the functions
    tdir = os.path.join(wt, c, "tests")
    os.makedirs(tdir, exist_ok=True)
    names = []
    for f in demos:
        shutil.copy(f, tdir)
        names.append(os.path.splitext(os.path.basename(f))[0])
    out = {}
    for n in names:
        r = sh("cargo test --offline -p %s --test %s 2>&1 | tail -5" % (c, n), cwd=wt)
        m = re.search(r"test result: (\w+)\. (\d+) passed; (\d+) failed", r.stdout)
        out[n] = m.group(0) if m else r.stdout[-300:]
    for n in names:
        os.remove(os.path.join(tdir, n + ".rs"))
    return out

def run_dora_demo(wt, d):
    """demonstrations that are Dora programs with a run.sh (compiles each demo*.dora with both code generators and
    compares with demo*.expected): builds the toolchain of the worktree incl. the boots self-compile first"""
    if not os.path.exists(os.path.join(d, "run.sh")):
        return None
    b = sh("cargo build --offline -q -p dora -p dora-runtime -p dora-startup 2>&1 | tail -3 && "
           "./target/debug/dora compile --internal-compile-boots --cannon pkgs/boots/boots.dora -o target/debug/dora-boots-compiler 2>&1 | grep -v 'ld:' | tail -3",
           cwd=wt)
    r = sh("sh %s %s 2>&1 | tail -30" % (os.path.join(d, "run.sh"), wt))
    r2 = sh("sh %s %s >/dev/null 2>&1; echo $?" % (os.path.join(d, "run.sh"), wt))
    return {"run_sh_exit": r2.stdout.strip(), "tail": [l for l in r.stdout.splitlines() if "MISMATCH" in l or "OK" in l][:8]}


def main():
    d = os.path.abspath(sys.argv[1])
    wt = sys.argv[sys.argv.index("--worktree") + 1] if "--worktree" in sys.argv else "/tmp/confirm-wt"
    patch = os.path.join(d, "patch.diff")
    if not os.path.exists(os.path.join(wt, ".git")):
        sh("git -C /repo worktree add --detach %s HEAD" % wt)
        sh("cp -a /repo/target %s/target" % wt)
    sh("git -C %s checkout -q --detach $(git -C /repo rev-parse HEAD) && git -C %s checkout -- . && git -C %s clean -fdq -e target" % (wt, wt, wt))
    res = {"at_repo_head": sh("git -C /repo rev-parse --short HEAD").stdout.strip(), "when": time.strftime("%Y-%m-%d %H:%M")}
    crates, files = crate_of(patch)
    res["files"] = files
    demo_without = run_demo(wt, d, crates)
    dora_without = run_dora_demo(wt, d)
    r = sh("git -C %s apply --check %s && git -C %s apply %s" % (wt, patch, wt, patch))
    res["applies"] = r.returncode == 0
    if r.returncode == 0:
        t = time.time()
        n = sh("cargo nextest run --workspace --no-fail-fast --offline --test-threads 8 2>&1 | tail -6", cwd=wt)
        res["builds"] = "error: could not compile" not in n.stdout
        m = re.search(r"(\d+) tests run: (\d+) passed(?: \((\d+) \w+\))?(?:, (\d+) failed)?", n.stdout)
        res["suite"] = m.group(0) if m else n.stdout[-300:]
        res["suite_s"] = round(time.time() - t)
        demo_with = run_demo(wt, d, crates)
        dora_with = run_dora_demo(wt, d)
        if dora_with is not None:
            res["demo_with_change"] = dora_with
            res["demo_without_change"] = dora_without
        elif demo_with is not None:
            res["demo_with_change"] = demo_with
            res["demo_without_change"] = demo_without
        else:
            res["demo"] = "Dora-program / stress demonstration: not re-run by the confirming script; see the author's recorded outputs in this directory"
    sh("git -C %s checkout -- . && git -C %s clean -fdq -e target" % (wt, wt))
    mp = os.path.join(d, "meta.json")
    meta = json.load(open(mp)) if os.path.exists(mp) else {}
    meta["confirmed"] = res
    json.dump(meta, open(mp, "w"), indent=1)
    print(json.dumps(res, indent=1))

if __name__ == "__main__":
    main()
