"""C06 / C16, lexer-level claims — shared implementation (MIR-seq).

Symbolically executes the rustc MIR of the real `dora_parser::lex`, every `Lexer::*` method, the
character-class helpers of dora-parser/src/lexer.rs and `compute_line_starts`, `compute_line_column`,
`get_line_content` of dora-parser/src/lib.rs, with z3 deciding the feasibility of every branch (so also
the reachability of every panic) and the assertions on the result.

Harness families (the same exploration serves both properties; a run asserts the obligations of *its*
property and writes its own evidence file):

  whole/L=k     `lex(text)` for EVERY well-formed UTF-8 text of exactly k bytes (k symbolic bytes).
  skel/<pat>    `lex(text)` for a concrete skeleton (string, template, char literal, comments, hex/binary/
                float/suffixed numbers, shift operators, braces) around a block of free symbolic bytes, so
                that the sub-lexers are entered and left in every possible way.
  step/L=k/p=j  one iteration of the token loop of `lex` (`is_eof`, `offset`, `read_token`) started in an
                ARBITRARY state of the loop head for a text of k bytes: cursor at byte j < k (any char
                boundary), the whole text symbolic, the stack of open template braces arbitrary within the
                invariant INV (below), shapes 0..2.  The obligations of a step are the induction step of
                the claims about `lex` (progress, cursor stays inside the text and on a char boundary, INV
                is re-established, errors lie inside the text, no panic); together with the base case (the
                state built by `Lexer::new`, executed in the whole/skel families) they give the claims for
                every text of <= k bytes by induction over the iterations - this is how texts longer than
                the 3 bytes reachable by brute force are covered (the whole-text exploration multiplies ~36
                ways per byte, a single token ~5-8).
                INV: every entry e of open_braces is >= 1 and  sum(e - 1) + 3 * depth <= cursor  (each level
                was pushed by a `"${` or `}..${`, at least 3 bytes, each increment by a `{`).  Every INV state
                is reachable (prefix `"${` `{`^(e-1) ... `;`^rest), which is also how a counterexample of a
                step is turned into a complete text for the native replay.
  eof/L=k       at cursor == k: `is_eof` holds (so the loop ends exactly at the end of the text).
  parse/L=k     `Parser::from_string(text).parse()` - lexer, recursive-descent parser with error recovery, event list,
                `build_tree`, `File::new` - for EVERY well-formed UTF-8 text of k bytes: no panic (this includes the
                parser's own `assert_eq!(root.text_length, content.len())`), error spans inside the text; the returned green
                tree is walked: node length == sum of the children, token texts concatenated == the text, byte for byte.
  parse-skel/<id>  the same complete parser run and the same obligations as parse/L on a short concrete program skeleton
                (PARSE_SKELETONS, <= 22 bytes) with ONE hole of 1 (2) fully symbolic bytes at a syntactically interesting position
                (after `.`, parameter / pattern / type position, after `::`, type arguments, modifier, use tail, struct / enum
                body, statement start, operator position, closing delimiter, template hole ...), so that parser code that needs a
                syntactic context is reached.  Keys `parse-skel/<id>/<kind>`.  Program shapes outside the list are outside the claim.
  lines/L=k     `compute_line_starts(text)` for every text of k bytes, `compute_line_column` for every offset
                0..k against the table, `get_line_content` for every line number 0..lines+1.
"""
import hashlib
import json
import os
import re
import shutil
import subprocess
import time

import z3

from . import common
from .common import Inconclusive, log
from .mir import models as M
from .mir import parse as P
from .mir import structs
from .mir.interp import Adt, Cell, Ctx, Explorer, Int, Opaque, Panic, Ref, Slice, Tup, VecV, set_path
from .mir.models_lex import MODELS_LEX, LexInterp, is_lazy, lazy_vec
from .mir.models_parse import MODELS_PARSE
from .mir.models_text import MODELS_TEXT
from .mir.runner import run_harnesses

PIDS = ("C06", "C16")
MODELS = MODELS_LEX + MODELS_TEXT + M.MODELS
LEXER_RS = "dora-parser/src/lexer.rs"
LIB_RS = "dora-parser/src/lib.rs"
NEEDED = ["lex", "Lexer::new", "Lexer::read_token", "Lexer::is_eof", "Lexer::offset", "keywords_in_map",
          "compute_line_starts", "compute_line_column", "get_line_content"]
MAX_DEPTH = 2          # shapes of the brace stack explored by the step family (complete for texts of <= 9 bytes)
# MIR blocks per path: measured on the unit-test texts, the unchanged lexer needs <= 151 blocks per byte, the parser <= 489
# (plus ~300 for the keyword table); the bounds leave a factor of ~8.  A path that runs into its bound is a non-termination
# CANDIDATE: it is decided by the native replay (a real run that does not finish), never by the bound itself.


def lex_bound(nbytes):
    return 3000 + 1500 * nbytes


def parse_bound(nbytes):
    return 6000 + 4000 * nbytes



# skeletons: `@` = a block of K free symbolic bytes (K by tier) inside a string / char / comment body, where a free
# byte forks ~5-8 ways; `?` = one free symbolic byte in token-start position, where it forks ~36 ways
SKELETONS = [
    ('string', '"@"'),
    ('string-escape', '"\\@"'),
    ('template-tail', '"${a}@"'),
    ('char', "'@'"),
    ('char-escape', "'\\@'"),
    ('block-comment', '/*@*/'),
    ('block-comment-nested', '/*/*@*/*/'),
    ('line-comment', '//@\n'),
    ('template', '"${?}"'),
    ('template-unclosed', '"a${?'),
    ('template-nested-braces', '"${{?}}"'),
    ('template-in-template', '"${"${?}"}"'),
    ('hex', '0x?'),
    ('hex-digits', '0x1f?'),
    ('binary', '0b?'),
    ('binary-digits', '0b10?'),
    ('float', '1.?'),
    ('float-fraction', '1.5?'),
    ('float-exponent', '1.5e?'),
    ('float-exponent-sign', '1.5e+?'),
    ('int-underscore', '1_?'),
    ('int-suffix', '12?64'),
    ('shift-right', '>>?'),
    ('shift-right-unsigned', '>>>?'),
    ('shift-left', '<<?'),
    ('braces', '{?}'),
]


# parser skeletons: short concrete programs with ONE hole of free symbolic bytes (`?` = one byte) at a syntactically interesting
# position; the whole text is only assumed to be well-formed UTF-8.  (id, text, tier in which the skeleton is first run: the quick
# tier runs the "quick" ones, the thorough tier all 1-byte holes and, while the time budget permits, the 2-byte holes in list order.)
# A hole in token-start position forks ~36 ways per byte and every path re-executes lexer + parser on the whole skeleton.
# Two-character operators (`=>`, `->`, `::`, `..`) cannot arise from a 1-byte hole: the `*-op` skeletons fix the first byte.
PARSE_SKELETONS = [
    ("postfix-dot", "fn f(){a.?}", "quick"),
    ("postfix-dot-semi", "fn f(){a.?;}", "quick"),
    ("postfix-dot-call", "fn f(){a.?()}", "thorough"),
    ("param", "fn f(?){}", "quick"),
    ("param-op", "fn f(=?){}", "quick"),
    ("param-second", "fn f(a:B,?){}", "quick"),
    ("param-type", "fn f(a:?){}", "quick"),
    ("param-close", "fn f(a:B?{}", "thorough"),
    ("ret-type", "fn f():?{}", "quick"),
    ("type-params", "fn f[?](){}", "quick"),
    ("where", "fn f() where ?{}", "thorough"),
    ("let-pattern", "fn f(){let ?=1;}", "quick"),
    ("let-type", "fn f(){let a:?=1;}", "quick"),
    ("let-init", "fn f(){let a=?;}", "quick"),
    ("match-pattern", "fn f(){match a{?=>1}}", "quick"),
    ("match-pattern-op", "fn f(){match a{=?1}}", "thorough"),
    ("match-body", "fn f(){match a{b=>?}}", "quick"),
    ("lambda-param", "fn f(){|?|1}", "quick"),
    ("lambda-param-op", "fn f(){| =?|1}", "quick"),
    ("for-pattern", "fn f(){for ? in a{}}", "thorough"),
    ("is-pattern", "fn f(){a is ?}", "quick"),
    ("as-type", "fn f(){a as ?}", "thorough"),
    ("path-tail", "fn f(){a::?}", "quick"),
    ("type-path-tail", "fn f(a:b::?){}", "quick"),
    ("type-args", "fn f(a:B[?]){}", "quick"),
    ("index", "fn f(){a[?]}", "thorough"),
    ("modifier", "@?fn f(){}", "quick"),
    ("modifier-second", "@pub ? fn f(){}", "thorough"),
    ("use-tail", "use a::?;", "quick"),
    ("use-group", "use a::{b,?};", "quick"),
    ("use-as", "use a as ?;", "thorough"),
    ("struct-body", "struct S{?}", "quick"),
    ("struct-field-type", "struct S{a:?}", "quick"),
    ("tuple-struct", "struct S(?)", "thorough"),
    ("enum-body", "enum E{?}", "quick"),
    ("enum-variant-args", "enum E{A(?)}", "thorough"),
    ("class-body", "class C{?}", "thorough"),
    ("trait-body", "trait T{?}", "thorough"),
    ("impl-body", "impl T for S{?}", "thorough"),
    ("impl-head", "impl ? for S{}", "thorough"),
    ("top-level", "?fn f(){}", "thorough"),
    ("const", "const A:?=1;", "thorough"),
    ("global-init", "let a:B=?;", "thorough"),
    ("alias", "type A=?;", "thorough"),
    ("extern", "extern ? fn f();", "thorough"),
    ("stmt-start", "fn f(){?}", "quick"),
    ("stmt-second", "fn f(){a;?}", "thorough"),
    ("binop", "fn f(){a?b}", "quick"),
    ("binop-rhs", "fn f(){a+?}", "quick"),
    ("unary", "fn f(){-?}", "thorough"),
    ("call-arg", "fn f(){g(?)}", "quick"),
    ("named-arg", "fn f(){g(a=?)}", "thorough"),
    ("tuple", "fn f(){(a,?)}", "thorough"),
    ("if-cond", "fn f(){if ?{}}", "thorough"),
    ("while-cond", "fn f(){while ?{}}", "thorough"),
    ("template-hole", 'fn f(){"a${?}"}', "quick"),
    ("close-paren", "fn f(){g(a?}", "quick"),
    ("close-brace", "fn f(){a?", "quick"),
    ("close-bracket", "fn f(){a[1?}", "quick"),
    # holes of two bytes (~1300 paths each)
    ("param-2", "fn f(??){}", "thorough"),
    ("lambda-param-2", "fn f(){|??|1}", "thorough"),
    ("postfix-dot-2", "fn f(){a.??}", "thorough"),
    ("match-pattern-2", "fn f(){match a{??=>1}}", "thorough"),
    ("let-pattern-2", "fn f(){let ??=1;}", "thorough"),
    ("param-type-2", "fn f(a:??){}", "thorough"),
    ("use-tail-2", "use a::??;", "thorough"),
    ("binop-2", "fn f(){a??b}", "thorough"),
    ("struct-body-2", "struct S{??}", "thorough"),
    ("stmt-start-2", "fn f(){??}", "thorough"),
]


def parse_skeleton_body(par, lay, pid, sid, pat):
    return parse_spec_body(par, lay, pid, "parse-skel", "parse-skel/%s %r" % (sid, pat), skeleton_spec(pat, 1))


# ------------------------------------------------------------------------------------------
# loading

def load():
    par = P.parse_file(common.mir_dump("dora-parser"), common.REPO)
    for need in NEEDED:
        if par.find(need) is None:
            raise Inconclusive("function %s not found in the MIR dump of dora-parser" % need)
    return par


class Layout:
    """positions of the struct fields the harness reads/writes, from the declarations of the working tree"""

    def __init__(self):
        self.lexer = structs.struct_fields(os.path.join(common.REPO, LEXER_RS), "Lexer")
        self.result = structs.struct_fields(os.path.join(common.REPO, LEXER_RS), "LexerResult")
        for f in ("content", "offset", "errors", "open_braces"):
            if f not in self.lexer:
                raise Inconclusive("struct Lexer has no field `%s` any more (fields: %s)" % (f, self.lexer))
        for f in ("tokens", "starts", "errors"):
            if f not in self.result:
                raise Inconclusive("struct LexerResult has no field `%s` any more (fields: %s)" % (f, self.result))
        self.token = structs.enum_discriminants(os.path.join(common.REPO, "dora-parser/src/token.rs"), "TokenKind")
        self.perr = structs.enum_discriminants(os.path.join(common.REPO, "dora-parser/src/error.rs"), "ParseError")
        if "EOF" not in self.token:
            raise Inconclusive("TokenKind::EOF not found")

    def lx(self, name):
        return self.lexer.index(name)

    def rs(self, name):
        return self.result.index(name)


def make_interp(par, lay, parser=False, progress_observer=False):
    it = LexInterp(par, (MODELS_PARSE + MODELS) if parser else MODELS)
    it.enum_discr["TokenKind"] = lay.token
    it.enum_discr["ParseError"] = lay.perr
    if parser:
        for f in ("parser.rs", "green.rs"):
            path = os.path.join(common.REPO, "dora-parser/src", f)
            for en in re.findall(r"\benum\s+(\w+)", structs._strip_comments(open(path).read())):
                it.enum_discr[en] = structs.enum_discriminants(path, en)
    kw = par.find("keywords_in_map")
    cache = {}

    def kw_hook(it_, ctx, fn, args):
        # the keyword table does not depend on any input: the real function is executed once per interpreter
        # (concretely - it must not fork) and its value (immutable) is reused on every path
        if "v" not in cache:
            ex = Explorer()
            cache["v"] = it_.exec(Ctx(ex, ()), [it_.new_frame(fn, args)])
            if ex.forks or not (isinstance(cache["v"], Opaque) and cache["v"].what == "hashmap"):
                raise Inconclusive("keywords_in_map did not run concretely to a HashMap: %r" % (cache["v"],))
        return cache["v"]
    it.hooks[kw.name] = kw_hook
    if progress_observer:
        rt = par.find("Lexer::read_token")
        OFF = lay.lx("offset")

        def rt_hook(it_, ctx, fn, args):
            # observer around the real read_token: a call that returns without moving the cursor would make `lex`
            # loop forever (and this executor with it); it is reported instead
            before = M.deref(args[0]).fields[OFF].conc()
            r = it_.exec(ctx, [it_.new_frame(fn, args)])
            after = M.deref(args[0]).fields[OFF].conc()
            if before is not None and after is not None and after <= before:
                raise NoProgress(before)
            return r
        it.hooks[rt.name] = rt_hook
    return it


# ------------------------------------------------------------------------------------------
# terms

def bv(n, w=32):
    return z3.BitVecVal(n, w)


def boundary(bs, i):
    return M.is_char_boundary_term(bs, i)


def boundary_of_term(bs, t):
    """the u32 term t is a char boundary of the text bs"""
    c = z3.simplify(t)
    if z3.is_bv_value(c):
        return boundary(bs, c.as_long())
    return z3.Or(*[z3.And(t == bv(i, t.size()), boundary(bs, i)) for i in range(len(bs) + 1)])


def span_inside(start, ln, L):
    """[start, start+len) within [0, L], no u32 wrap-around"""
    return z3.ULE(z3.ZeroExt(1, start) + z3.ZeroExt(1, ln), bv(L, 33))


class NoProgress(Exception):
    def __init__(self, at):
        Exception.__init__(self, "read_token returned without consuming a byte at offset %s" % at)
        self.at = at


# ------------------------------------------------------------------------------------------
# specification of the line table (independent of the code; over the symbolic bytes)

class LineSpec:
    def __init__(self, bs):
        self.b = [x.t for x in bs]
        self.L = len(bs)

    def break_end(self, j):
        """a line break ends exactly before offset j (1 <= j <= L): LF, CRLF (after the LF) or a lone CR"""
        if j < 1 or j > self.L:
            return z3.BoolVal(False)
        p = self.b[j - 1]
        lone_cr = p == 0x0D if j == self.L else z3.And(p == 0x0D, self.b[j] != 0x0A)
        return z3.Or(p == 0x0A, lone_cr)

    def table_ok(self, ls):
        if not ls:
            return z3.BoolVal(False)
        c = [ls[0] == 0]
        c += [z3.ULT(a, b) for a, b in zip(ls, ls[1:])]
        c += [z3.ULE(a, bv(self.L)) for a in ls]
        for j in range(1, self.L + 1):
            inside = z3.Or(*[a == j for a in ls[1:]]) if len(ls) > 1 else z3.BoolVal(False)
            c.append(inside == self.break_end(j))
        return z3.And(*c)


def py_line_starts(text):
    L = len(text)
    starts = [0]
    for j in range(1, L + 1):
        p = text[j - 1]
        if p == 0x0A or (p == 0x0D and not (j < L and text[j] == 0x0A)):
            starts.append(j)
    return starts


def py_boundary(text, i):
    return i == 0 or i == len(text) or (i < len(text) and not (0x80 <= text[i] < 0xC0))


# ------------------------------------------------------------------------------------------
# harness bodies

def text_value(ctx, spec):
    """spec: list of int (concrete byte) | None (symbolic byte)"""
    bs, inputs = [], {}
    for i, b in enumerate(spec):
        if b is None:
            v = ctx.sym("b%d" % i, "u8")
            inputs["b%d" % i] = v.t
        else:
            v = Int(b, "u8")
        bs.append(v)
    ctx.assume(M.utf8_valid([b.t for b in bs]))
    return bs, inputs


def skeleton_spec(pat, k):
    spec = []
    for ch in pat:
        if ch == "@":
            spec += [None] * k
        elif ch == "?":
            spec.append(None)
        else:
            spec += list(ch.encode("utf-8"))
    return spec


def spec_text(spec, witness):
    return bytes(witness.get("b%d" % i, 0x3F) if b is None else b for i, b in enumerate(spec))


def example_text(ctx, bs):
    """one concrete text of the current path (for the samples in the evidence)"""
    m = ctx.model()
    if m is None:
        return None
    return bytes(m.eval(b.t, model_completion=True).as_long() for b in bs).hex()


def stats(out, it):
    for f in it.called:
        out.outcomes.setdefault("fn:" + f, 1)
    for m in it.models_used:
        out.outcomes.setdefault("model:" + m, 1)


SECOND = {"every": 0}


def cvc5_verdict(pid, solver, timeout_s, name):
    if not shutil.which("cvc5"):
        return None
    d = os.path.join(common.WORK, "smt")
    os.makedirs(d, exist_ok=True)
    path = os.path.join(d, "%s-%s-%d.smt2" % (pid, re.sub(r"[^\w.-]", "_", name), os.getpid()))
    with open(path, "w") as f:
        f.write("(set-logic ALL)\n" + solver.to_smt2().replace("(set-logic", "; (set-logic"))
    try:
        p = subprocess.run(["cvc5", "--lang", "smt2", "--tlimit=%d" % (timeout_s * 1000), path], capture_output=True, text=True, timeout=timeout_s + 30)
    except subprocess.TimeoutExpired:
        return None
    finally:
        try:
            os.unlink(path)
        except OSError:
            pass
    if "(error" in p.stdout or "(error" in p.stderr:
        raise Inconclusive("cvc5 error on %s: %s" % (name, (p.stdout + p.stderr)[:300]))
    o = p.stdout.strip().splitlines()
    if o and o[0] in ("sat", "unsat"):
        return o[0]
    return None


def set_bound(ctx, out, default):
    """bound on the MIR blocks of this path.  After the first path of this worker that ran into the bound (a non-termination
    candidate - each candidate is decided by the native replay, not by the bound), the bound drops to 8x the longest
    terminating path seen, so that a lexer/parser that loops on most inputs does not cost the full bound on every path."""
    ctx.ex.max_steps = out.__dict__.get("_bound", default)


def note_terminated(ctx, out):
    out.__dict__["_longest"] = max(out.__dict__.get("_longest", 0), ctx.steps)


def note_diverged(ctx, out):
    out.__dict__["_bound"] = max(8 * out.__dict__.get("_longest", 0), 6000)


class Asserter:
    """assertions of one run: an assertion of the other property is skipped (it belongs to the other check)"""

    def __init__(self, pid, out, ctx, inputs, base):
        self.pid, self.out, self.ctx, self.inputs, self.base = pid, out, ctx, inputs, base

    def require(self, prop, cond, kind, what, **extra):
        if prop != "both" and prop != self.pid:
            return True
        info = dict(self.base)
        info.update(extra)
        ok = self.out.require(self.ctx, cond, what, self.inputs, kind=kind, **info)
        every = SECOND["every"]
        if every and not z3.is_false(z3.simplify(z3.Not(cond))) and not z3.is_true(z3.simplify(z3.Not(cond))):
            # second opinion (cvc5) on a seeded sample of the verdict queries that are not decided by rewriting alone
            h = int(hashlib.sha1(repr((common.seed(), self.pid, kind, self.base.get("label"), tuple(self.ctx.trace), self.out.checks)).encode()).hexdigest()[:8], 16)
            if h % every == 0:
                sol = z3.Solver()
                sol.add(*self.ctx.pc)
                sol.add(z3.Not(cond))
                v2 = cvc5_verdict(self.pid, sol, 60, "%s-%08x" % (kind, h))
                self.out.outcome("second:asked")
                if v2 is None:
                    self.out.outcome("second:no_answer")
                elif (v2 == "unsat") != ok:
                    raise Inconclusive("solver disagreement on a verdict query (%s): z3 %s, cvc5 %s" % (kind, "unsat" if ok else "sat", v2))
                else:
                    self.out.outcome("second:agree")
        return ok

    def violation(self, prop, kind, what, **extra):
        if prop != "both" and prop != self.pid:
            return
        m = self.ctx.model()
        w = {}
        if m is not None:
            for k, t in self.inputs.items():
                v = m.eval(t, model_completion=True)
                w[k] = v.as_long()
        v = {"kind": kind, "what": what, "witness": w}
        v.update(self.base)
        v.update(extra)
        self.out.violations.append(v)


def token_name(t):
    if isinstance(t, Adt) and not t.fields:
        return t.variant
    raise Inconclusive("token kind is not a field-less enum value: %r" % (t,))


def error_parts(e):
    """ParseErrorWithLocation -> (variant name, payload term or None, start term, len term)"""
    if not (isinstance(e, Tup) and e.fnames and "span" in e.fnames and "error" in e.fnames):
        raise Inconclusive("lexer error value %r" % (e,))
    sp, er = e.fields[e.fnames.index("span")], e.fields[e.fnames.index("error")]
    if not (isinstance(sp, Tup) and sp.fnames == ["start", "len"]):
        raise Inconclusive("span value %r" % (sp,))
    if not isinstance(er, Adt):
        raise Inconclusive("ParseError value %r" % (er,))
    payload = er.fields[0].t if er.fields and isinstance(er.fields[0], Int) else None
    return er.variant, payload, sp.fields[0].t, sp.fields[1].t


def width_witnesses(ctx, out, bs):
    memo = getattr(ctx, "_text_memo", {})
    ws = [memo.get(("w", b.t.get_id())) for b in bs]
    for w in ws:
        if w and w >= 2:
            out.seen("multi-byte-character-%d" % w)
    return ws


KEYWORDISH = re.compile(r".*_KW$|TRUE|FALSE")


def token_witnesses(ctx, out, bs, names, starts, errs):
    """vacuity witnesses: what kinds of tokens / errors the explored paths contain (sat twins)"""
    L = len(bs)
    wit = out.witness
    ends = starts[1:] + [L]
    for nm, s, e in zip(names, starts, ends):
        out.seen("token:" + nm)
        if KEYWORDISH.fullmatch(nm):
            out.seen("keyword")
        rng = range(s, e)
        if nm == "IDENTIFIER":
            out.seen("identifier")
        if nm in ("INT_LITERAL", "FLOAT_LITERAL") and e - s >= 2 and "number-with-suffix" not in wit:
            # a decimal literal whose last byte is a letter that is no hex digit: a type suffix
            if ctx.can(z3.And(z3.UGE(bs[s].t, 0x31), z3.ULE(bs[s].t, 0x39), z3.UGE(bs[e - 1].t, 0x67), z3.ULE(bs[e - 1].t, 0x7A))):
                out.seen("number-with-suffix")
        if nm in ("STRING_LITERAL", "TEMPLATE_LITERAL", "TEMPLATE_END_LITERAL", "CHAR_LITERAL") and e - s >= 3:
            if "string-or-char-with-escape" not in wit and ctx.can(z3.Or(*[bs[i].t == 0x5C for i in rng])):
                out.seen("string-or-char-with-escape")
            if "multi-byte-character-inside-string" not in wit and ctx.can(z3.Or(*[z3.UGE(bs[i].t, 0x80) for i in rng])):
                out.seen("multi-byte-character-inside-string")
            if "astral-character-inside-string" not in wit and e - s >= 5 and ctx.can(z3.Or(*[z3.UGE(bs[i].t, 0xF0) for i in rng])):
                out.seen("astral-character-inside-string")
        if nm in ("LINE_COMMENT", "MULTILINE_COMMENT") and e - s >= 3:
            if "multi-byte-character-inside-comment" not in wit and ctx.can(z3.Or(*[z3.UGE(bs[i].t, 0x80) for i in rng])):
                out.seen("multi-byte-character-inside-comment")
    for variant, _, _, _ in errs:
        out.seen("error:" + variant)


def check_errors(A, errs, L, where):
    for i, (variant, _, st, ln) in enumerate(errs):
        A.require("both", span_inside(st, ln, L), "error-span", "a lexer error span [start, start+len) does not lie inside the text (%s)" % where,
                  error=variant)


def conc_or_none(t):
    c = z3.simplify(t)
    return c.as_long() if z3.is_bv_value(c) else None


def check_lex_result(A, it, lay, ctx, out, bs, r):
    """assertions on the value returned by the real `lex` for the text bs"""
    L = len(bs)
    if not (isinstance(r, Tup) and len(r.fields) == len(lay.result)):
        raise Inconclusive("lex returned %r" % (r,))
    toks, sts, ers = r.fields[lay.rs("tokens")], r.fields[lay.rs("starts")], r.fields[lay.rs("errors")]
    if not all(isinstance(x, VecV) for x in (toks, sts, ers)):
        raise Inconclusive("lex result fields %r" % (r,))
    names = [token_name(t) for t in toks.elems]
    starts = [s.t for s in sts.elems]
    errs = [error_parts(e) for e in ers.elems]
    n = len(starts)
    # --- C06: termination/progress (the number of tokens is bounded by the text), diagnostics inside the file
    A.require("C06", z3.BoolVal(len(names) <= L + 1), "token-count", "lex produces more tokens than the text has bytes (+ EOF)", tokens=len(names))
    prog = [z3.ULT(a, b) for a, b in zip(starts, starts[1:])]
    if n:
        prog.append(z3.ULT(starts[-1], bv(L)))
    A.require("C06", z3.And(*prog) if prog else z3.BoolVal(True), "progress", "a token of the result consumes no byte (token loop without progress)")
    check_errors(A, errs, L, "lex")
    # --- C16: the tokens tile the text
    shape = len(names) == n + 1 and names[-1] == "EOF" and "EOF" not in names[:-1]
    A.require("C16", z3.BoolVal(shape), "shape", "tokens/starts are not (n kinds + one trailing EOF, n starts)", tokens=names[-4:], starts=n)
    tile = []
    if n:
        tile.append(starts[0] == 0)
    elif L:
        tile.append(z3.BoolVal(False))
    tile += prog
    # the lengths the parser derives: starts[i+1] - starts[i], the last one up to L; positive, sum == L
    lens = [b - a for a, b in zip(starts, starts[1:])] + ([bv(L) - starts[-1]] if n else [])
    total = bv(0)
    for x in lens:
        total = total + x
        tile.append(z3.UGT(x, 0))
    tile.append(total == bv(L))
    A.require("C16", z3.And(*tile), "tiling", "token starts/lengths do not tile the text (first start 0, each token starts where the previous "
              "one ended, positive lengths, sum == text length)")
    A.require("C16", z3.And(*[boundary_of_term(bs, s) for s in starts]) if n else z3.BoolVal(True), "char-boundary",
              "a token boundary lies inside a multi-byte character")
    cs = [conc_or_none(s) for s in starts]
    if all(c is not None for c in cs) and cs == sorted(set(cs)) and (not cs or cs[-1] < L):
        token_witnesses(ctx, out, bs, names[:n], cs, errs)
    if len(out.samples) < 2:
        out.samples.append({"example_text_hex": example_text(ctx, bs), "tokens": names, "starts": cs,
                            "errors": [(v, conc_or_none(s), conc_or_none(l)) for v, _, s, l in errs], "decisions": len(ctx.trace)})


def whole_body(par, lay, pid, family, label, spec):
    it = make_interp(par, lay, progress_observer=True)

    def body(ctx, out):
        set_bound(ctx, out, lex_bound(len(spec)))
        bs, inputs = text_value(ctx, spec)
        A = Asserter(pid, out, ctx, inputs, {"family": family, "label": label, "spec": spec})
        try:
            r = it.call(ctx, "lex", [Slice(bs, "str")])
        except Panic as p:
            A.violation("both", "panic", "lex panics: %s (%s)" % (p.msg, p.where))
            stats(out, it)
            return
        except NoProgress as e:
            A.violation("both", "no-progress", "lex does not terminate: %s" % e)
            stats(out, it)
            return
        except Inconclusive as e:
            if "step bound exceeded" not in str(e):
                raise
            A.violation("both", "no-termination", "lex does not terminate within %d MIR blocks on a text of %d bytes (%s)" % (ctx.ex.max_steps, len(bs), e))
            note_diverged(ctx, out)
            stats(out, it)
            return
        note_terminated(ctx, out)
        width_witnesses(ctx, out, bs)
        check_lex_result(A, it, lay, ctx, out, bs, r)
        stats(out, it)
        out.outcome("ok")
    return body


def step_body(par, lay, pid, L, p):
    it = make_interp(par, lay)
    OFF, ERR, BR = lay.lx("offset"), lay.lx("errors"), lay.lx("open_braces")
    dmax = min(MAX_DEPTH, p // 3)

    def body(ctx, out):
        set_bound(ctx, out, lex_bound(L))
        spec = [None] * L
        bs, inputs = text_value(ctx, spec)
        if not ctx.branch(boundary(bs, p)):
            return                       # the cursor of the real lexer is never inside a character: no such state
        # arbitrary brace stack within INV
        sel = ctx.sym("depth", "u8")
        es = [ctx.sym("e%d" % (i + 1), "usize") for i in range(dmax)]
        ctx.assume(z3.ULE(sel.t, dmax))
        for d in range(1, dmax + 1):
            tot = bv(3 * d, 64)
            for e in es[:d]:
                tot = tot + (e.t - 1)
            ctx.assume(z3.Implies(sel.t == d, z3.And(*([z3.UGE(e.t, 1) for e in es[:d]] + [z3.ULE(e.t, p) for e in es[:d]] + [z3.ULE(tot, p)]))))
        inputs = dict(inputs)
        inputs["depth"] = sel.t
        for i, e in enumerate(es):
            inputs["e%d" % (i + 1)] = e.t
        A = Asserter(pid, out, ctx, inputs, {"family": "step", "label": "step/L=%d/p=%d" % (L, p), "L": L, "p": p})
        text = Slice(bs, "str")
        lexer = it.call(ctx, "Lexer::new", [text])
        if not (isinstance(lexer, Tup) and len(lexer.fields) == len(lay.lexer)):
            raise Inconclusive("Lexer::new returned %r" % (lexer,))
        f = list(lexer.fields)
        f[OFF] = Int(p, "usize")
        f[BR] = lazy_vec(sel, [VecV(es[:d], "vec") for d in range(dmax + 1)]) if dmax else VecV((), "vec")
        cell = Cell(Tup(f, lexer.name, lexer.fnames), "lexer")
        ref = Ref(cell)
        try:
            eof = it.call(ctx, "Lexer::is_eof", [ref])
            A.require("both", z3.Not(eof), "early-eof", "is_eof holds although the cursor is in front of the end of the text (lex would stop early)")
            start = it.call(ctx, "Lexer::offset", [ref])
            A.require("C16", start.t == bv(p), "start-offset", "offset() does not report the cursor (the recorded token start would be wrong)")
            tok = it.call(ctx, "Lexer::read_token", [ref])
        except Panic as e:
            A.violation("both", "panic", "one iteration of the token loop panics: %s (%s)" % (e.msg, e.where))
            stats(out, it)
            return
        except Inconclusive as e:
            if "step bound exceeded" not in str(e):
                raise
            A.violation("both", "no-termination", "read_token does not return within %d MIR blocks (%s)" % (ctx.ex.max_steps, e))
            note_diverged(ctx, out)
            stats(out, it)
            return
        note_terminated(ctx, out)
        new = cell.v
        off2, errs2, br2 = new.fields[OFF], new.fields[ERR], new.fields[BR]
        nm = token_name(tok)
        A.require("both", z3.BoolVal(lay.token[nm] < lay.token["EOF"]), "token-kind", "read_token returns a kind that is not below EOF (the assert in lex fails)", token=nm)
        A.require("both", z3.UGT(off2.t, bv(p, 64)), "progress", "read_token consumes no byte (token loop without progress)", token=nm)
        A.require("both", z3.ULE(off2.t, bv(L, 64)), "cursor-inside", "the cursor runs past the end of the text", token=nm)
        A.require("both", boundary_of_term(bs, z3.Extract(31, 0, off2.t)), "char-boundary", "a token ends inside a multi-byte character (the next `content[offset..]` panics)", token=nm)
        errs = [error_parts(e) for e in errs2.elems]
        check_errors(A, errs, L, "read_token of " + nm)
        if not is_lazy(br2):
            # INV re-established (needed by the next iteration: `-= 1` / `+= 1` on the top entry cannot wrap)
            d2 = len(br2.elems)
            tot = bv(3 * d2, 66)
            inv = []
            for e in br2.elems:
                inv.append(z3.UGE(e.t, 1))
                tot = tot + z3.ZeroExt(2, e.t - 1)
            inv.append(z3.ULE(tot, z3.ZeroExt(2, off2.t)))
            A.require("both", z3.And(*inv), "brace-invariant", "the invariant of the template brace stack is not re-established", token=nm, depth=d2)
            out.seen("brace-stack-depth-%d-after" % d2)
            out.seen("brace-stack-depth-%d-before" % (getattr(ctx, "_text_memo", {}).get("lazy-shape", 0) if dmax else 0))
            o2 = off2.conc()
            if o2 is not None:
                out.seen("brace-stack-touched")
        o2 = off2.conc()
        out.seen("step-token:" + nm)
        if o2 is not None and p < o2 <= L:
            token_witnesses(ctx, out, bs[:o2], [nm], [p], errs)
        width_witnesses(ctx, out, bs)
        if len(out.samples) < 2:
            out.samples.append({"state": {"L": L, "cursor": p, "brace_stack_depth": getattr(ctx, "_text_memo", {}).get("lazy-shape", "untouched")},
                                "example_text_hex": example_text(ctx, bs), "token": nm, "cursor_after": o2, "errors": [v for v, _, _, _ in errs],
                                "decisions": len(ctx.trace)})
        stats(out, it)
        out.outcome("ok")
    return body


def eof_body(par, lay, pid, L):
    it = make_interp(par, lay)
    OFF = lay.lx("offset")

    def body(ctx, out):
        bs, inputs = text_value(ctx, [None] * L)
        A = Asserter(pid, out, ctx, inputs, {"family": "eof", "label": "eof/L=%d" % L, "L": L, "p": L})
        lexer = it.call(ctx, "Lexer::new", [Slice(bs, "str")])
        f = list(lexer.fields)
        f[OFF] = Int(L, "usize")
        ref = Ref(Cell(Tup(f, lexer.name, lexer.fnames), "lexer"))
        try:
            eof = it.call(ctx, "Lexer::is_eof", [ref])
        except Panic as e:
            A.violation("both", "panic", "is_eof panics: %s" % e.msg)
            return
        A.require("both", eof, "eof-at-end", "is_eof does not hold with the cursor at the end of the text (read_token would be called at the end: `expect` panics)")
        out.seen("eof-checked")
        stats(out, it)
        out.outcome("ok")
    return body


def lines_body(par, lay, pid, L):
    it = make_interp(par, lay)

    def body(ctx, out):
        bs, inputs = text_value(ctx, [None] * L)
        A = Asserter(pid, out, ctx, inputs, {"family": "lines", "label": "lines/L=%d" % L, "spec": [None] * L})
        spec = LineSpec(bs)
        text = Slice(bs, "str")
        try:
            ls = it.call(ctx, "compute_line_starts", [text])
        except Panic as e:
            A.violation("both", "lines-panic", "compute_line_starts panics: %s (%s)" % (e.msg, e.where))
            stats(out, it)
            return
        if not isinstance(ls, VecV):
            raise Inconclusive("compute_line_starts returned %r" % (ls,))
        lst = [e.t for e in ls.elems]
        n = len(lst)
        if not A.require("C16", spec.table_ok(lst), "line-table", "the line table is not [0] + the offsets after every LF / CRLF / lone CR, strictly increasing"):
            stats(out, it)
            return
        lsl = Slice(ls.elems, "slice")
        wit = out.witness
        for i in range(L - 1):
            if "text-with-crlf" not in wit and ctx.can(z3.And(bs[i].t == 0x0D, bs[i + 1].t == 0x0A)):
                out.seen("text-with-crlf")
        if L and "text-with-lone-cr" not in wit and ctx.can(z3.And(bs[L - 1].t == 0x0D)):
            out.seen("text-with-lone-cr")
        if L and "text-with-lf" not in wit and ctx.can(bs[L - 1].t == 0x0A):
            out.seen("text-with-lf")
        width_witnesses(ctx, out, bs)
        for o in range(L + 1):
            try:
                lc = it.call(ctx, "compute_line_column", [lsl, Int(o, "u32")])
            except Panic as e:
                A.violation("both", "line-column-panic", "compute_line_column panics on an offset inside the text: %s (%s)" % (e.msg, e.where), o=o)
                continue
            line, col = lc.fields[0].t, lc.fields[1].t
            alts = []
            for k in range(n):
                c = [line == k + 1, z3.UGE(col, 1), lst[k] + col - 1 == bv(o), z3.ULE(lst[k], bv(o))]
                if k + 1 < n:
                    c.append(z3.ULT(bv(o), lst[k + 1]))
                alts.append(z3.And(*c))
            A.require("C16", z3.Or(*alts), "line-column", "compute_line_column(offset) is not (the line containing the offset, 1 + distance to its start): "
                      "line_starts[line-1] + column - 1 != offset", o=o)
            out.seen("line-column-roundtrip-checked")
            if "offset-on-later-line" not in wit and ctx.can(z3.UGT(line, 1)):
                out.seen("offset-on-later-line")
        pos = 0
        for k in range(n + 2):
            try:
                s = it.call(ctx, "get_line_content", [text, lsl, Int(k, "usize")])
            except Panic as e:
                A.violation("both", "line-content-panic", "get_line_content panics on the table of the text: %s (%s)" % (e.msg, e.where), k=k)
                continue
            if not isinstance(s, Slice):
                raise Inconclusive("get_line_content returned %r" % (s,))
            if k < n:
                a = conc_or_none(lst[k])
                b = conc_or_none(lst[k + 1]) if k + 1 < n else L
                if a is None or b is None:
                    raise Inconclusive("symbolic line table entry")
                same = len(s.elems) == b - a and all(x is y for x, y in zip(s.elems, bs[a:b]))
                A.require("C16", z3.BoolVal(same), "line-content", "get_line_content(k) is not the text between line start k and line start k+1", k=k)
                pos += len(s.elems)
            else:
                A.require("C16", z3.BoolVal(len(s.elems) == 0), "line-content", "get_line_content beyond the last line is not empty", k=k)
        A.require("C16", z3.BoolVal(pos == L), "lines-tile", "the lines do not add up to the text")
        out.seen("line-contents-checked")
        if len(out.samples) < 2:
            out.samples.append({"L": L, "example_text_hex": example_text(ctx, bs), "line_starts": [conc_or_none(x) for x in lst], "decisions": len(ctx.trace)})
        stats(out, it)
        out.outcome("ok")
    return body


def unbox(v):
    """Arc<T> / Box<T> / &T -> T"""
    while True:
        if isinstance(v, Opaque) and v.what == "box":
            v = v.payload
        elif isinstance(v, Ref):
            v = M.deref(v)
        else:
            return v


def field(v, name):
    if not (isinstance(v, Tup) and v.fnames and name in v.fnames):
        raise Inconclusive("value %r has no field %s" % (v, name))
    return v.fields[v.fnames.index(name)]


def green_walk(node, dump, toks, conds):
    """pre-order walk of a GreenNode value: dump entries, token byte elements in order, length conditions"""
    node = unbox(node)
    kind, children, tl = field(node, "syntax_kind"), field(node, "children"), field(node, "text_length")
    total = bv(0)
    my = len(dump)
    dump.append(None)
    for c in children.elems:
        if not (isinstance(c, Adt) and c.variant in ("Token", "Node")):
            raise Inconclusive("green element %r" % (c,))
        if c.variant == "Token":
            t = unbox(c.fields[0])
            text = field(t, "text")
            dump.append("T:%s:%d" % (token_name(field(t, "kind")), len(text.elems)))
            toks.extend(text.elems)
            total = total + bv(len(text.elems))
        else:
            total = total + green_walk(c.fields[0], dump, toks, conds)
    conds.append(tl.t == total)
    c = conc_or_none(tl.t)
    dump[my] = "N:%s:%s" % (token_name(kind), c if c is not None else "?")
    return tl.t


def parse_body(par, lay, pid, L):
    return parse_spec_body(par, lay, pid, "parse", "parse/L=%d" % L, [None] * L)


def parse_spec_body(par, lay, pid, family, label, spec):
    """the real Parser::from_string(text).parse() on the text `spec` (concrete bytes, None = symbolic byte)"""
    it = make_interp(par, lay, parser=True, progress_observer=True)
    L = len(spec)

    def body(ctx, out):
        set_bound(ctx, out, parse_bound(L))
        bs, inputs = text_value(ctx, spec)
        A = Asserter(pid, out, ctx, inputs, {"family": family, "label": label, "spec": spec})
        try:
            p = it.call(ctx, "Parser::from_string", [Slice(bs, "str")])
            r = it.call(ctx, "Parser::parse", [p])
        except Panic as e:
            A.violation("both", "parse-panic", "Parser::from_string(text).parse() panics: %s (%s)" % (e.msg, e.where))
            stats(out, it)
            return
        except NoProgress as e:
            A.violation("both", "no-progress", "Parser::from_string does not terminate: %s" % e)
            stats(out, it)
            return
        except Inconclusive as e:
            if "step bound exceeded" not in str(e):
                raise
            A.violation("both", "parse-no-termination", "the parser does not return within %d MIR blocks on a text of %d bytes (%s)" % (ctx.ex.max_steps, L, e))
            note_diverged(ctx, out)
            stats(out, it)
            return
        note_terminated(ctx, out)
        if not (isinstance(r, Tup) and len(r.fields) == 2 and isinstance(r.fields[1], VecV)):
            raise Inconclusive("Parser::parse returned %r" % (r,))
        payload = unbox(unbox(r.fields[0]).fields[0])
        root = field(payload, "root")
        errs = [error_parts(e) for e in r.fields[1].elems]
        check_errors(A, errs, L, "parser")
        dump, toks, conds = [], [], []
        rl = green_walk(root, dump, toks, conds)
        A.require("C16", rl == bv(L), "green-root-length", "the length of the green root is not the length of the text")
        A.require("C16", z3.And(*conds), "green-node-length", "the length of a green node is not the sum of its children's")
        same = len(toks) == L and all(x is y for x, y in zip(toks, bs))
        A.require("C16", z3.BoolVal(same), "green-text", "the token texts of the green tree, concatenated in order, do not reproduce the text byte for byte")
        out.seen("parse-tree-checked")
        if family == "parse-skel":
            out.seen("parse-skel-tree-checked")
        for d in dump:
            if d.startswith("N:"):
                out.seen("node:" + d.split(":")[1])
        if errs:
            out.seen("parse-with-errors")
        else:
            out.seen("parse-without-errors")
        if len(out.samples) < 2:
            out.samples.append({"example_text_hex": example_text(ctx, bs), "tree": dump, "errors": [(v, conc_or_none(a), conc_or_none(b)) for v, _, a, b in errs],
                                "decisions": len(ctx.trace)})
        stats(out, it)
        out.outcome("ok")
    return body


OBLIGATIONS = {
    "C06": {
        "whole": ["no panic/unwrap/expect/index/overflow assertion reachable in lex", "every token consumes >= 1 byte; tokens <= L + 1 (termination)",
                  "every error span inside [0, L]"],
        "skel": ["no panic/unwrap/expect/index/overflow assertion reachable in lex", "every token consumes >= 1 byte; tokens <= L + 1 (termination)",
                 "every error span inside [0, L]"],
        "step": ["no panic reachable in is_eof/offset/read_token from any INV state", "is_eof false in front of the end", "token kind < EOF",
                 "cursor advances (>= 1 byte)", "cursor <= L", "new cursor is a char boundary (precondition of the next step)",
                 "every error span inside [0, L]", "INV re-established"],
        "eof": ["is_eof holds at cursor == L"],
        "parse": ["no panic reachable in Parser::from_string(text).parse() (lexer, recursive descent with error recovery, event list, build_tree, File::new)",
                  "every error span (lexer and parser) inside [0, L]"],
        "parse-skel": ["no panic reachable in Parser::from_string(text).parse() (lexer, recursive descent with error recovery, event list, build_tree, File::new)",
                  "every error span (lexer and parser) inside [0, L]"],
        "lines": ["no panic in compute_line_starts", "no panic in compute_line_column for every offset 0..L", "no panic in get_line_content for every line 0..lines+1"],
    },
    "C16": {
        "whole": ["lex returns (no panic)", "n kinds + one trailing EOF, n starts", "first start 0, starts strictly increasing, lengths positive, sum == L",
                  "every token boundary is a char boundary", "every error span inside [0, L]"],
        "skel": ["lex returns (no panic)", "n kinds + one trailing EOF, n starts", "first start 0, starts strictly increasing, lengths positive, sum == L",
                 "every token boundary is a char boundary", "every error span inside [0, L]"],
        "step": ["the step returns (no panic)", "is_eof false in front of the end", "offset() == cursor (recorded start)", "cursor advances", "cursor <= L",
                 "new cursor is a char boundary", "every error span inside [0, L]", "token kind < EOF", "INV re-established"],
        "eof": ["is_eof holds at cursor == L (the last token ends at L)"],
        "parse": ["the parser returns a tree (no panic)", "length of the green root == L", "every green node's length == sum of its children's",
                  "token texts of the green tree concatenated in order == the text, byte for byte", "every error span (lexer and parser) inside [0, L]"],
        "parse-skel": ["the parser returns a tree (no panic)", "length of the green root == L", "every green node's length == sum of its children's",
                  "token texts of the green tree concatenated in order == the text, byte for byte", "every error span (lexer and parser) inside [0, L]"],
        "lines": ["line table == [0] + ends of LF / CRLF / lone CR, strictly increasing", "line_starts[line-1] + column - 1 == offset, offset inside that line, for every offset 0..L",
                  "get_line_content(k) == text[line_starts[k] .. line_starts[k+1]]; empty beyond; lines add up to the text", "no panic"],
    },
}


# ------------------------------------------------------------------------------------------
# native runs (the real functions, natively compiled) and the judge of a native result

def private_native(pid):
    built = common.build_native()
    d = os.path.join(common.WORK, "lex")
    os.makedirs(d, exist_ok=True)
    nat = os.path.join(d, "%s-verif-native-%d" % (pid.lower(), os.getpid()))
    shutil.copy2(built, nat)
    return nat


def _cmd(nat):
    # a lexer that makes no progress pushes tokens forever: cap the address space instead of eating the machine
    # (prlimit instead of a preexec_fn, so that python can spawn without forking this large process)
    pl = shutil.which("prlimit")
    return ([pl, "--as=%d" % (1 << 29)] if pl else []) + [nat]


def _kv(lines):
    out = {}
    for ln in lines:
        if "=" in ln:
            k, v = ln.split("=", 1)
            out[k] = v
    return out


def native_run(nat, sub, text, timeout=10):
    try:
        p = subprocess.run(_cmd(nat) + ["lex", sub, text.hex()], stdout=subprocess.PIPE, stderr=subprocess.PIPE, text=True, timeout=timeout,
                           env=common.ENV)
    except subprocess.TimeoutExpired:
        return {"hang": "no result after %d s" % timeout}
    out = _kv(p.stdout.splitlines())
    if p.returncode != 0 and "panic" not in out:
        out["hang"] = "process ended with status %d (memory limit 512 MiB): %s" % (p.returncode, p.stderr[-200:].replace("\n", " "))
    return out


def native_batch(nat, sub, texts, timeout=60):
    """one process for many texts (translator validation); falls back to single runs when the batch does not finish"""
    try:
        p = subprocess.run(_cmd(nat) + ["lex", sub + "-batch"] + [t.hex() or "-" for t in texts], stdout=subprocess.PIPE, stderr=subprocess.PIPE,
                           text=True, timeout=timeout, env=common.ENV)
    except subprocess.TimeoutExpired:
        p = None
    if p is None or p.returncode != 0:
        # some text makes the real function hang or die: single runs; after five such texts the remaining ones are not
        # run (None: the validation skips them) - every one of them would cost the full timeout
        out, hangs = [], 0
        for t in texts:
            if hangs >= 5:
                out.append(None)
                continue
            r = native_run(nat, sub, t)
            hangs += 1 if "hang" in r else 0
            out.append(r)
        return out
    per = [[] for _ in texts]
    for ln in p.stdout.splitlines():
        m = re.match(r"(\d+)\.(.*)$", ln)
        if m and int(m.group(1)) < len(texts):
            per[int(m.group(1))].append(m.group(2))
    return [_kv(x) for x in per]


def parse_native_tokens(res):
    toks = res.get("tokens", "").split(",") if res.get("tokens") else []
    starts = [int(x) for x in res.get("starts", "").split(",")] if res.get("starts") else []
    errs = []
    for e in (res.get("errors") or "").split(";"):
        if e:
            m = re.fullmatch(r"([\w:]+)@(\d+)\+(\d+)", e)
            errs.append((m.group(1), int(m.group(2)), int(m.group(3))))
    return toks, starts, errs


def judge_tokens(text, res, pid):
    """evaluates the obligations of property `pid` on the result of the REAL lex; -> list of failures"""
    L = len(text)
    if "hang" in res:
        return ["lex does not terminate: " + res["hang"]]
    if "panic" in res:
        return ["lex panics: " + res["panic"]]
    if "tokens" not in res:
        return []
    toks, starts, errs = parse_native_tokens(res)
    bad = []
    for nm, s, ln in errs:
        if s + ln > L:
            bad.append("error %s has the span [%d, %d) in a text of %d bytes" % (nm, s, s + ln, L))
    inc = all(a < b for a, b in zip(starts, starts[1:])) and (not starts or starts[-1] < L)
    if pid == "C06":
        if len(toks) > L + 1:
            bad.append("%d tokens for %d bytes" % (len(toks), L))
        if not inc:
            bad.append("a token consumes no byte: starts %s" % starts)
    else:
        if len(toks) != len(starts) + 1 or not toks or toks[-1] != "EOF" or "EOF" in toks[:-1]:
            bad.append("tokens %s / %d starts are not n kinds + EOF, n starts" % (toks[-3:], len(starts)))
        if (starts and starts[0] != 0) or (L and not starts) or not inc:
            bad.append("token starts %s do not tile the %d bytes" % (starts, L))
        for s in starts:
            if not py_boundary(text, s):
                bad.append("token boundary %d lies inside a multi-byte character" % s)
    return bad


def judge_parse(text, res, pid):
    L = len(text)
    if "hang" in res:
        return ["the parser does not terminate: " + res["hang"]]
    if "panic" in res:
        return ["Parser::parse panics: " + res["panic"]]
    if "root_length" not in res:
        return []
    bad = []
    for e in (res.get("errors") or "").split(";"):
        m = re.fullmatch(r"([\w:]+)@(\d+)\+(\d+)", e) if e else None
        if m and int(m.group(2)) + int(m.group(3)) > L:
            bad.append("error %s has the span [%s, +%s) in a text of %d bytes" % (m.group(1), m.group(2), m.group(3), L))
    if pid == "C16":
        if int(res["root_length"]) != L:
            bad.append("green root has length %s for %d bytes" % (res["root_length"], L))
        if res.get("roundtrip") != "1":
            bad.append("green root .to_string() differs from the text")
        stack = []        # (declared length, accumulated) per open node; pre-order dump with lengths lets us re-add
        ents = [x.split(":") for x in res.get("tree", "").split(",") if x]
        # verify node length == sum of children by a recursive descent over the pre-order list
        def walk(i):
            kind, nm, ln = ents[i]
            ln = int(ln)
            if kind == "T":
                return i + 1, ln
            j, tot = i + 1, 0
            while j < len(ents) and tot < ln:
                j, x = walk(j)
                tot += x
            if tot != ln:
                bad.append("green node %s has length %d, its children add up to %d" % (nm, ln, tot))
            return j, ln
        if ents:
            walk(0)
    return bad


def judge_lines(text, res, pid):
    L = len(text)
    bad = []
    ls_txt = res.get("line_starts", "")
    if "hang" in res:
        return ["the line functions do not terminate: " + res["hang"]]
    if ls_txt.startswith("panic"):
        return ["compute_line_starts panics: " + ls_txt]
    if not ls_txt:
        return []
    ls = [int(x) for x in ls_txt.split(",")]
    want = py_line_starts(text)
    if pid == "C16" and ls != want:
        bad.append("compute_line_starts = %s, line breaks end at %s" % (ls, want[1:]))
    for o in range(L + 1):
        v = res.get("lc_%d" % o, "")
        if v.startswith("panic"):
            bad.append("compute_line_column(%d) panics: %s" % (o, v))
        elif pid == "C16" and v:
            line, col = [int(x) for x in v.split(":")]
            ok = 1 <= line <= len(ls) and col >= 1 and ls[line - 1] + col - 1 == o and (line == len(ls) or o < ls[line])
            if not ok:
                bad.append("compute_line_column(%d) = (%d, %d) with line starts %s" % (o, line, col, ls))
    pos = 0
    for k in range(len(ls) + 2):
        v = res.get("line_%d" % k, "")
        if v.startswith("panic"):
            bad.append("get_line_content(%d) panics: %s" % (k, v))
        elif pid == "C16" and v:
            st, ln = v.split(":")
            if k < len(ls):
                end = ls[k + 1] if k + 1 < len(ls) else L
                if st != str(ls[k]) or int(ln) != end - ls[k]:
                    bad.append("get_line_content(%d) = [%s, +%s), expected [%d, %d)" % (k, st, ln, ls[k], end))
                pos += int(ln)
            elif int(ln) != 0:
                bad.append("get_line_content(%d) beyond the last line has %s bytes" % (k, ln))
    if pid == "C16" and pos != L and not bad:
        bad.append("the lines add up to %d of %d bytes" % (pos, L))
    return bad


JUDGES = {"lines": judge_lines, "parse": judge_parse, "tokens": judge_tokens}


def reach_prefix(p, depth, es):
    """a text of p bytes after which the real lexer is at a token start with the brace stack es[:depth]"""
    s = b""
    for e in es[:depth]:
        s += b'"${' + b"{" * (e - 1)
    if len(s) > p:
        return None
    return s + b";" * (p - len(s))


def violation_text(v):
    w = v["witness"]
    if v["family"] in ("step", "eof"):
        L, p = v["L"], v["p"]
        raw = bytes(w.get("b%d" % i, 0x3F) for i in range(L))
        d = w.get("depth", 0)
        pre = reach_prefix(p, d, [w.get("e%d" % (i + 1), 1) for i in range(d)])
        if pre is None:
            return None
        return pre + raw[p:]
    return spec_text(v["spec"], w)


def replay_violation(nat, pid, v):
    """-> (reproduced, detail): the REAL functions run on the witness text, the obligations of the property are re-evaluated"""
    text = violation_text(v)
    if text is None:
        return False, {"observed": "no text reaches the state of the witness (harness bug)"}
    try:
        text.decode("utf-8")
    except UnicodeDecodeError:
        return False, {"text_hex": text.hex(), "observed": "witness is not UTF-8 (encoding bug)"}
    sub = {"lines": "lines", "parse": "parse", "parse-skel": "parse"}.get(v["family"], "tokens")
    cands = [text]
    if v["kind"] == "brace-invariant":
        # a broken invariant of the brace stack is latent: it shows when the next braces are read
        cands += [text + b"}" * k for k in (1, 2, 3)] + [text + b"{}"]
    for text in cands:
        res = native_run(nat, sub, text)
        bad = JUDGES[sub](text, res, pid)
        if bad:
            break
    detail = {"text_hex": text.hex(), "text": text.decode("utf-8"), "cmd": ["lex", sub, text.hex()], "kind": v["kind"], "harness": v.get("label"),
              "real": {k: x for k, x in res.items() if not k.startswith("_")}, "observed": "; ".join(bad) if bad else None}
    return bool(bad), detail


# ------------------------------------------------------------------------------------------
# translator validation: concrete runs of the encoding vs the natively compiled real functions

EXTRA_TEXTS = [
    "", "fn main() { let x = 1_000i64; }", "\"a${b}c${{d}}e\" }", "\"${\"${1}\"}\"", "'\\'' '\\", "/* /* */ */ /*", "0x 0b 0xfg 0b12 1.e5 1.5e+ 2.0E-3f32 7f64",
    ">>>= >>= <<= ... ..= === !== => -> :: |= || &&", "a\u0085b c d e f g h i　j​k᠎l﻿m",
    "é☕\U0001F600\"é☕\U0001F600\"'\U0001F600'//\U0001F600\n/*\U0001F600*/", "\r\n\r\t \x0b\x0c x\ry\nz\r\n", "_ _a a_ 9_ __ true false Self self", "\"\\", "\"a${", "}{}}\"${}}\"",
    "#?$`~\\\x00\x7f", "\"$x $ {${", "12abc 0xABCDEFg 0b102 1..2 1.a 1._",
]
PARSE_TEXTS = ["fn main() { let x = 1; }\n", "fn foo() {\n  // comment\n  let x = 1 + 2;\n}\n", "class A { a: Int64, b: String }", "let a = [1i32];",
               "fn f(a: Int64, b: T[X]): Y { if a { b } else { c }; while x { y = \"a${z}b\"; } }", "enum E { A, B(Int64) } impl E { fn g() {} }",
               "use a::b::{c, d}; mod m; const X: Int64 = 0x1f; trait T { fn f(); }", "fn f() { match x { A => 1, B(y) => y, _ => 0 } }", "fn (", "}{)(", "fn f( { let = ; }",
               "struct S(Int64, Bool) type A = B; extern fn p();", "@pub fn f[T: A + B](x: T) where T: C {}", "fn f() { x.y(1, 2)[3] as Z; a && b || !c; -1.5e3; 'c'; return; }"]
EXTRA_LINE_TEXTS = ["", "\r", "\n", "\r\n", "a\r\n\U0001F600b\nçx\r", "\U0001F600\r\n", "x\r\r\n\ny", "\n\r", "ab"]


def rust_literals(src, callers):
    """string literals (normal and raw) passed as first argument to one of `callers` in Rust source `src`"""
    out = []
    for m in re.finditer(r"\b(?:%s)\(\s*" % "|".join(re.escape(c) for c in callers), src):
        i = m.end()
        mr = re.match(r'r(#*)"', src[i:])
        if mr:
            h = mr.group(1)
            j = src.find('"' + h, i + len(mr.group(0)))
            if j > 0:
                out.append(src[i + len(mr.group(0)):j])
            continue
        if src[i:i + 1] != '"':
            continue
        j, buf = i + 1, []
        while j < len(src) and src[j] != '"':
            if src[j] == "\\":
                n = src[j + 1]
                if n == "x":
                    buf.append(chr(int(src[j + 2:j + 4], 16))); j += 4; continue
                if n == "u":
                    k = src.index("}", j)
                    buf.append(chr(int(src[j + 3:k], 16))); j = k + 1; continue
                if n == "\n":
                    j += 2
                    while src[j] in " \t\n":
                        j += 1
                    continue
                buf.append({"n": "\n", "r": "\r", "t": "\t", "0": "\0", "\\": "\\", "'": "'", '"': '"'}.get(n, n)); j += 2; continue
            buf.append(src[j]); j += 1
        out.append("".join(buf))
    seen, res = set(), []
    for s in out:
        if s not in seen:
            seen.add(s)
            res.append(s)
    return res


def test_module(path):
    src = open(os.path.join(common.REPO, path)).read()
    i = src.find("#[cfg(test)]")
    return src[i:] if i >= 0 else ""


def enc_run(it, fn, args, max_steps=100000):
    ex = Explorer(max_steps=max_steps)
    ctx = Ctx(ex, ())
    try:
        r = it.call(ctx, fn, args)
    except Panic as p:
        return ("panic", p.msg)
    except NoProgress as e:
        return ("diverges", str(e))
    except Inconclusive as e:
        if "step bound exceeded" not in str(e):
            raise
        return ("diverges", str(e))
    if ex.forks:
        raise Inconclusive("concrete run of %s forked" % fn)
    return ("ok", r)


def conc(v):
    c = v.conc()
    if c is None:
        raise Inconclusive("non-concrete value in a concrete run: %r" % (v,))
    return c


def validate_translator(par, lay, nat):
    lex_texts = rust_literals(test_module(LEXER_RS), ["lex_success", "lex", "crate::lex"])
    line_texts = rust_literals(test_module(LIB_RS), ["compute_line_starts"]) + \
        [m for m in re.findall(r'let content = "((?:[^"\\]|\\.)*)";', test_module(LIB_RS))]
    line_texts = [s.replace("\\r", "\r").replace("\\n", "\n") if "\\" in s else s for s in line_texts]
    if len(lex_texts) < 20 or len(line_texts) < 8:
        raise Inconclusive("unit-test inputs of lexer.rs / lib.rs not found (%d / %d; the test modules changed shape)" % (len(lex_texts), len(line_texts)))
    it = make_interp(par, lay, progress_observer=True)
    runs = 0
    all_lex = lex_texts + EXTRA_TEXTS
    reals = native_batch(nat, "tokens", [x.encode("utf-8") for x in all_lex])
    for s, real in zip(all_lex, reals):
        if real is None:
            continue
        tb = s.encode("utf-8")
        st, r = enc_run(it, "lex", [Slice([Int(b, "u8") for b in tb], "str")], lex_bound(len(tb)))
        runs += 1
        if st != "ok" or "panic" in real or "hang" in real:
            if (st == "panic") != ("panic" in real) or (st == "diverges") != ("hang" in real):
                raise Inconclusive("encoding wrong: lex(%r): executor %s, real function %s" % (s, st if st != "ok" else "returns", real))
            continue
        toks, starts, errs = parse_native_tokens(real)
        e_toks = [token_name(t) for t in r.fields[lay.rs("tokens")].elems]
        e_starts = [conc(x) for x in r.fields[lay.rs("starts")].elems]
        e_errs = []
        for e in r.fields[lay.rs("errors")].elems:
            variant, payload, a, b = error_parts(e)
            nm = variant if payload is None else "%s:%d" % (variant, z3.simplify(payload).as_long())
            e_errs.append((nm, z3.simplify(a).as_long(), z3.simplify(b).as_long()))
        if (toks, starts, errs) != (e_toks, e_starts, e_errs):
            raise Inconclusive("encoding wrong: lex(%r): executor %s %s %s, real function %s %s %s" % (s, e_toks, e_starts, e_errs, toks, starts, errs))
    all_lines = line_texts + EXTRA_LINE_TEXTS
    reals = native_batch(nat, "lines", [x.encode("utf-8") for x in all_lines])
    for s, real in zip(all_lines, reals):
        if real is None:
            continue
        tb = s.encode("utf-8")
        text = Slice([Int(b, "u8") for b in tb], "str")
        st, ls = enc_run(it, "compute_line_starts", [text])
        runs += 1
        if st == "diverges":
            if "hang" not in real:
                raise Inconclusive("encoding wrong: compute_line_starts(%r) diverges in the executor only" % s)
            continue
        if st == "panic":
            if not real.get("line_starts", "").startswith("panic"):
                raise Inconclusive("encoding wrong: compute_line_starts(%r) panics in the executor only" % s)
            continue
        enc_ls = ",".join(str(conc(e)) for e in ls.elems)
        if real.get("line_starts") != enc_ls:
            raise Inconclusive("encoding wrong: compute_line_starts(%r): executor [%s], real function [%s]" % (s, enc_ls, real.get("line_starts")))
        lsl = Slice(ls.elems, "slice")
        for o in range(len(tb) + 1):
            st, lc = enc_run(it, "compute_line_column", [lsl, Int(o, "u32")])
            got = "panic" if st == "panic" else "%d:%d" % (conc(lc.fields[0]), conc(lc.fields[1]))
            want = real.get("lc_%d" % o, "")
            if (got == "panic") != want.startswith("panic") or (got != "panic" and got != want):
                raise Inconclusive("encoding wrong: compute_line_column(%r, %d): executor %s, real function %s" % (s, o, got, want))
            runs += 1
        for k in range(len(ls.elems) + 2):
            st, sl = enc_run(it, "get_line_content", [text, lsl, Int(k, "usize")])
            want = real.get("line_%d" % k, "")
            got = "panic" if st == "panic" else str(len(sl.elems))
            if (got == "panic") != want.startswith("panic") or (got != "panic" and got != want.split(":")[-1]):
                raise Inconclusive("encoding wrong: get_line_content(%r, %d): executor %s, real function %s" % (s, k, got, want))
            runs += 1
    # parser entry: green tree (pre-order kinds and lengths) and the error list, executor vs real parser
    itp = make_interp(par, lay, parser=True, progress_observer=True)
    ptexts = [x for x in all_lex if len(x.encode("utf-8")) <= 40] + PARSE_TEXTS
    reals = native_batch(nat, "parse", [x.encode("utf-8") for x in ptexts])
    for s, real in zip(ptexts, reals):
        if real is None:
            continue
        tb = s.encode("utf-8")
        ex = Explorer(max_steps=parse_bound(len(tb)))
        ctx = Ctx(ex, ())
        try:
            p = itp.call(ctx, "Parser::from_string", [Slice([Int(b, "u8") for b in tb], "str")])
            r = itp.call(ctx, "Parser::parse", [p])
            st = "ok"
        except Panic as e:
            st, r = "panic", e.msg
        except NoProgress as e:
            st, r = "diverges", str(e)
        except Inconclusive as e:
            if "step bound exceeded" not in str(e):
                raise
            st, r = "diverges", str(e)
        runs += 1
        if st != "ok" or "panic" in real or "hang" in real:
            if (st == "panic") != ("panic" in real) or (st == "diverges") != ("hang" in real):
                raise Inconclusive("encoding wrong: parse(%r): executor %s, real parser %s" % (s, r if st != "ok" else "returns", real))
            continue
        dump, toks, conds = [], [], []
        green_walk(field(unbox(unbox(r.fields[0]).fields[0]), "root"), dump, toks, conds)
        e_errs = []
        for e in r.fields[1].elems:
            variant, payload, a, b = error_parts(e)
            nm = variant if payload is None else "%s:%d" % (variant, z3.simplify(payload).as_long())
            e_errs.append("%s@%d+%d" % (nm, z3.simplify(a).as_long(), z3.simplify(b).as_long()))
        if ",".join(dump) != real.get("tree") or ";".join(e_errs) != (real.get("errors") or ""):
            raise Inconclusive("encoding wrong: parse(%r): executor tree %s errors %s, real parser tree %s errors %s" %
                               (s, ",".join(dump), ";".join(e_errs), real.get("tree"), real.get("errors")))
    return runs, len(lex_texts), len(line_texts)


# ------------------------------------------------------------------------------------------
# driver

TIERS = {
    # whole / parse: text lengths explored by brute force (complete `lex`, complete `Parser::parse`); *_more: one more length when
    # the time budget permits; step: max text length of the step family (grown between min and max while the budget permits);
    # skel_k: free bytes per skeleton block; lines: text lengths of the line-table family; budget_s: exploration time the driver
    # plans for (it stops growing bounds when the prediction exceeds it); cap_s: deadline of the run (inconclusive beyond)
    "quick": {"whole": 2, "whole_more": 2, "parse": 2, "parse_more": 2, "step_min": 5, "step_max": 6, "skel_k": 2, "lines": 5,
              "budget_s": 170, "pskel_budget_s": 0, "cap_s": 1500, "second_every": 200},
    "thorough": {"whole": 2, "whole_more": 3, "parse": 2, "parse_more": 3, "step_min": 6, "step_max": 8, "skel_k": 3, "lines": 7,
                 "budget_s": 1500, "pskel_budget_s": 1200, "cap_s": 4500, "second_every": 1000},
}


def env_int(name, default):
    try:
        return int(os.environ[name])
    except (KeyError, ValueError):
        return default


def run(pid, tier):
    assert pid in PIDS
    t0 = time.time()
    par = load()
    lay = Layout()
    nat = private_native(pid)
    try:
        return run2(pid, tier, t0, par, lay, nat)
    finally:
        try:
            os.unlink(nat)
        except OSError:
            pass


def _only_not_supported(only):
    raise Inconclusive("VERIF_LEX_FAMILIES=%s: only `parse-skel` can be run alone" % ",".join(only))


def run2(pid, tier, t0, par, lay, nat):
    cfg = dict(TIERS[tier])
    for k, env in (("whole_more", "VERIF_LEX_WHOLE"), ("parse_more", "VERIF_LEX_PARSE"), ("step_min", "VERIF_LEX_STEP_MIN"), ("step_max", "VERIF_LEX_STEP_MAX"),
                   ("skel_k", "VERIF_LEX_SKEL"), ("lines", "VERIF_LEX_LINES"), ("budget_s", "VERIF_LEX_BUDGET")):
        cfg[k] = env_int(env, cfg[k])
    cfg["whole"], cfg["parse"] = min(cfg["whole"], cfg["whole_more"]), min(cfg["parse"], cfg["parse_more"])
    cfg["step_max"] = max(cfg["step_min"], cfg["step_max"])
    SECOND["every"] = cfg["second_every"]
    nval, n_lex_texts, n_line_texts = validate_translator(par, lay, nat)
    log("[%s] translator validated on %d concrete calls (%d + %d unit-test texts of lexer.rs / lib.rs) in %.1fs" %
        (pid, nval, n_lex_texts, n_line_texts, time.time() - t0))
    t_expl = time.time()
    deadline = t_expl + cfg["cap_s"]          # builds and validation have their own time limits
    results = {}

    def explore(bodies, depth, what):
        t = time.time()
        res = run_harnesses(bodies, depth=depth, query_timeout_ms=60000, deadline=deadline)
        results.update(res)
        dt, n = time.time() - t, sum(o.paths for o, _ in res.values())
        log("[%s] %s: %d paths in %.1fs" % (pid, what, n, dt))
        return dt, n

    def fits(predicted, what):
        spent = time.time() - t_expl
        if spent + predicted > cfg["budget_s"]:
            log("[%s] %s not attempted: %.0fs spent, predicted %.0fs, budget %ds" % (pid, what, spent, predicted, cfg["budget_s"]))
            return False
        return True

    reached = {"whole": cfg["whole"], "parse": cfg["parse"], "step": 0, "pskel": []}
    only = [x for x in os.environ.get("VERIF_LEX_FAMILIES", "").split(",") if x]       # development filter
    reached["only"] = only

    # 0. parser skeletons with a symbolic hole: the tier's set of 1-byte holes always, 2-byte holes while their own budget permits
    def pskel(sel):
        return {"parse-skel/%s" % sid: parse_skeleton_body(par, lay, pid, sid, pat) for sid, pat, _ in sel}
    if not only or "parse-skel" in only:
        one = [x for x in PARSE_SKELETONS if x[1].count("?") == 1 and (tier == "thorough" or x[2] == "quick")]
        two = [x for x in PARSE_SKELETONS if x[1].count("?") == 2 and tier == "thorough"]
        t_ps = time.time()
        dt1, _ = explore(pskel(one), 7, "parse-skel: %d skeletons with a 1-byte hole" % len(one))
        reached["pskel"] += [(sid, pat) for sid, pat, _ in one]
        for x in two:
            predicted = dt1 / max(1, len(one)) * 40.0
            if time.time() - t_ps + predicted > cfg["pskel_budget_s"]:
                log("[%s] parse-skel %s not attempted: %.0fs spent on the family, predicted %.0fs, budget %ds" % (pid, x[0], time.time() - t_ps, predicted, cfg["pskel_budget_s"]))
                continue
            explore(pskel([x]), 9, "parse-skel %s (2-byte hole)" % x[0])
            reached["pskel"].append((x[0], x[1]))
        t_expl += time.time() - t_ps         # the other families keep their own budget
    if only:
        # a development run of one family never replaces the evidence of the full check
        common.EVID = os.path.join(common.WORK, "dev-evidence")
        os.makedirs(common.EVID, exist_ok=True)
        return finish(pid, tier, t0, cfg, reached, results, nat, nval, n_lex_texts, n_line_texts) if only == ["parse-skel"] else \
            _only_not_supported(only)
    # 1. line table, end of file, skeletons; whole texts and the parser on every text up to the base length
    bodies = {}
    for L in range(0, cfg["lines"] + 1):
        bodies["lines/L=%d" % L] = lines_body(par, lay, pid, L)
    for L in range(0, cfg["step_max"] + 1):
        bodies["eof/L=%d" % L] = eof_body(par, lay, pid, L)
    for nm, pat in SKELETONS:
        bodies["skel/%s" % nm] = whole_body(par, lay, pid, "skel", "skel/%s %r" % (nm, pat), skeleton_spec(pat, cfg["skel_k"]))
    explore(bodies, 9, "lines<=%d, eof, %d skeletons with %d free bytes" % (cfg["lines"], len(SKELETONS), cfg["skel_k"]))
    dt_w, _ = explore({"whole/L=%d" % L: whole_body(par, lay, pid, "whole", "whole/L=%d" % L, [None] * L) for L in range(0, cfg["whole"] + 1)}, 9,
                      "whole<=%d" % cfg["whole"])
    dt_p, _ = explore({"parse/L=%d" % L: parse_body(par, lay, pid, L) for L in range(0, cfg["parse"] + 1)}, 9, "parse<=%d" % cfg["parse"])

    # 2. step family up to step_min
    def step_bodies(lengths):
        return {"step/L=%d/p=%d" % (L, p): step_body(par, lay, pid, L, p) for L in lengths for p in range(L)}
    last_dt, _ = explore(step_bodies(range(1, cfg["step_min"] + 1)), 9, "step L<=%d" % cfg["step_min"])
    reached["step"] = cfg["step_min"]
    last_dt *= 0.72          # share of the longest length in a geometric series of ratio ~3.5
    # 3. grow the bounds in a fixed order of priority while the time budget permits: one more byte for the step family, one more
    #    byte for the brute-force families (a byte in token-start position multiplies their paths by ~36), then the step family again
    mk = {"whole": lambda L: whole_body(par, lay, pid, "whole", "whole/L=%d" % L, [None] * L), "parse": lambda L: parse_body(par, lay, pid, L)}
    dt_last = {"whole": dt_w, "parse": dt_p, "step": last_dt}
    plan = [("step", cfg["step_min"] + 1)] + [(f, L) for f in ("whole", "parse") for L in range(cfg[f] + 1, cfg[f + "_more"] + 1)] + \
           [("step", L) for L in range(cfg["step_min"] + 2, cfg["step_max"] + 1)]
    for fam, L in plan:
        if fam == "step" and L > cfg["step_max"]:
            continue
        if L != reached[fam] + 1:
            continue                      # a shorter length of this family was skipped
        if not fits(dt_last[fam] * (3.6 if fam == "step" else 38.0), "%s L=%d" % (fam, L)):
            continue
        bodies = step_bodies([L]) if fam == "step" else {"%s/L=%d" % (fam, L): mk[fam](L)}
        dt_last[fam], _ = explore(bodies, 9 if fam == "step" else 11, "%s L=%d" % (fam, L))
        reached[fam] = L
    return finish(pid, tier, t0, cfg, reached, results, nat, nval, n_lex_texts, n_line_texts)


OUTSIDE = [
    "program shapes outside the parser skeleton list (bounds.parser_skeletons): the parser is decided on every text of <= 2-3 bytes and on the listed "
    "skeletons with every filling of their 1-2 byte hole, not on grammar-directed programs, repository sources or their mutants",
    "the parser (parser.rs), tree construction (build_tree / green.rs) and File::new on texts longer than the parse bound below (2-3 bytes: every "
    "single token, every pair/triple of short tokens, i.e. mostly the error-recovery paths of parse_element); grammar-directed programs, "
    "repository sources and their mutants are not reached",
    "re-parse stability (text that parses without errors yields the same tree when parsed again); syntax-node spans (ast.rs SyntaxNode offsets)",
    "semantic analysis (dora-frontend) and the driver (exit status, readable messages instead of a backtrace)",
    "nesting depth of any construct; string templates nested deeper than 2 levels in the step family (a third level needs >= 10 bytes)",
    "texts longer than the bounds below (whole texts by brute force, single loop iterations by induction up to the step bound)",
    "the induction from the step obligations to whole texts is an argument on paper (stated in `induction`), not a solver query; "
    "what the solver decides is every branch and assertion inside one iteration from every invariant state",
    "texts of 4 GiB and more (u32 offsets: `offset()` panics by design with `overflow`)",
    "which non-ASCII characters are letters/digits: irrelevant here (identifiers and digits are ASCII ranges in this lexer)",
]


def finish(pid, tier, t0, cfg, reach, results, nat, nval, n_lex_texts, n_line_texts):
    reached = reach["step"]
    rep = common.Reporter(pid)
    obligations = discharged = paths = queries = checks = pruned = 0
    stime = 0.0
    fns, models_used = set(), set()
    vac, samples, per, fam_paths, fam_samples = {}, [], {}, {}, {}
    second = {"asked": 0, "agree": 0, "no_answer": 0}
    hooks = {"Lexer::read_token": "observer around the real function (reports a call that does not move the cursor)",
             "keywords_in_map": "the real function, executed once per interpreter instance, value reused"}
    reported = set()
    replays = {}
    unreproduced = []
    for name, (out, st) in results.items():
        fam = name.split("/")[0]
        obl = OBLIGATIONS[pid][fam]
        obligations += len(obl)
        paths += out.paths
        fam_paths[fam] = fam_paths.get(fam, 0) + out.paths
        queries += st["queries"]
        checks += out.checks
        pruned += st["pruned"]
        stime += st["solver_time"]
        for k, x in out.outcomes.items():
            if k.startswith("fn:"):
                fns.add(k[3:])
            elif k.startswith("model:"):
                models_used.add(k[6:])
            elif k.startswith("second:"):
                second[k[7:]] += x
        for k in out.witness:
            vac[k] = True
        if out.samples:
            smp = dict(out.samples[-1])
            smp["harness"] = name
            fam_samples.setdefault(fam, []).append(smp)
        per[name] = {"paths": out.paths, "assertion_queries": out.checks, "solver_queries": st["queries"], "pruned_branches": st["pruned"],
                     "solver_time_s": round(st["solver_time"], 2)}
        if out.paths == 0:
            raise Inconclusive("harness %s explored no path (vacuous)" % name)
        bad = bool(out.violations)
        seen = set()
        for v in out.violations:
            # native replay of the first counterexample per harness and kind (at most three per family and kind; each must reproduce),
            # one report per family and kind
            if v["kind"] in seen:
                continue
            seen.add(v["kind"])
            key = "%s/%s" % (name if fam == "parse-skel" else fam, v["kind"])      # parse-skel/<skeleton id>/<kind>
            replays[key] = replays.get(key, 0) + 1
            if replays[key] > 3:
                continue            # at most three native replays per family and kind (a hanging lexer costs the full timeout each time)
            ok, detail = replay_violation(nat, pid, v)
            if not ok:
                unreproduced.append("counterexample of %s (%s) does not reproduce on the real function: %s" %
                                    (name, v["what"], json.dumps(detail, default=str)[:700]))
                continue
            if key not in reported:
                reported.add(key)
                rep.violation(key, "%s — real lex: %s (text bytes %s)" % (v["what"], detail["observed"], detail["text_hex"]), detail)
        if not bad:
            discharged += len(obl)
        per[name]["violated"] = sorted(set(x["kind"] for x in out.violations))
    for fam, lst in fam_samples.items():
        samples += lst[-2:]            # the two longest harnesses of every family
    if unreproduced:
        # a counterexample that the real build does not reproduce is never reported; it makes the run inconclusive unless
        # other counterexamples of this run did reproduce (those are reported, the rest is kept in the evidence)
        for u in unreproduced[:5]:
            log("[%s] not reproduced: %s" % (pid, u))
        if not rep.new and not rep.known_hit:
            raise Inconclusive(unreproduced[0])
    need = ["identifier", "keyword", "number-with-suffix", "string-or-char-with-escape", "error:UnclosedString", "error:UnclosedComment", "error:UnclosedChar",
            "error:UnknownChar", "multi-byte-character-inside-string", "multi-byte-character-2", "multi-byte-character-3", "multi-byte-character-4",
            "token:TEMPLATE_LITERAL", "token:TEMPLATE_END_LITERAL", "token:FLOAT_LITERAL", "token:MULTILINE_COMMENT", "token:LINE_COMMENT",
            "token:NEWLINE", "token:WHITESPACE", "token:GT_GT_GT_EQ", "brace-stack-touched", "brace-stack-depth-0-after", "brace-stack-depth-1-after",
            "eof-checked", "parse-tree-checked", "parse-with-errors", "parse-without-errors", "node:ERROR_ELEM", "text-with-crlf", "text-with-lone-cr", "text-with-lf", "line-column-roundtrip-checked", "offset-on-later-line",
            "line-contents-checked"]
    if reach.get("pskel"):
        need += ["parse-skel-tree-checked", "node:FUNCTION", "node:BLOCK_EXPR"]
    if reached >= 5 or cfg["skel_k"] >= 3:
        need.append("astral-character-inside-string")
    if reached >= 6:
        need.append("brace-stack-depth-2-after")     # `"${` read with one level already open needs a cursor >= 3 and 3 more bytes
    if reached >= 7:
        need.append("brace-stack-depth-2-before")    # two levels open need a cursor >= 6
    if reach.get("only"):
        need = ["parse-skel-tree-checked", "node:FUNCTION", "node:BLOCK_EXPR"]       # development run of one family
    if not rep.new and not rep.known_hit:
        for k in need:
            if not vac.get(k):
                raise Inconclusive("vacuity witness missing: " + k)
    bounds = {
        "whole_text_bytes": list(range(0, reach["whole"] + 1)),
        "whole_texts": "every well-formed UTF-8 byte string of these lengths (symbolic bytes), complete `lex`",
        "parse_text_bytes": list(range(0, reach["parse"] + 1)),
        "parse_texts": "every well-formed UTF-8 byte string of these lengths, complete `Parser::from_string(text).parse()` (lexer, parser, build_tree)",
        "step_text_bytes_reached": reached,
        "parser_skeletons": {sid: {"text": pat.replace("?", "\u25fb"), "hole_bytes": pat.count("?")} for sid, pat in reach.get("pskel", [])},
        "parser_skeleton_holes": "every byte value(s) of the hole such that the whole text is well-formed UTF-8; complete Parser::from_string(text).parse()",
        "families_run": reach.get("only") or "all",
        "step_states": "every text of 1..%d bytes, every cursor position on a char boundary in front of the end, brace stack depth 0..%d within INV "
                       "(complete for these lengths: depth 3 needs a cursor >= 9)" % (reached, MAX_DEPTH),
        "skeletons": {nm: pat for nm, pat in SKELETONS},
        "skeleton_free_bytes": cfg["skel_k"],
        "line_text_bytes": list(range(0, cfg["lines"] + 1)),
        "line_offsets": "every offset 0..L; every line number 0..lines+1",
        "mir_blocks_per_path": "lexer families 3000 + 1500 per byte, parser family 6000 + 4000 per byte (a path reaching its bound is a non-termination "
                               "candidate decided by the native replay)",
    }
    cov = {
        "obligations": obligations, "discharged": discharged,
        "obligation_kinds": OBLIGATIONS[pid],
        "induction": "claims about `lex` on texts of <= %d bytes follow from: base = state of Lexer::new (whole/skel families); step = the obligations of the "
                     "step family from every state within INV (cursor on a char boundary < L, open_braces entries >= 1, sum(e-1)+3*depth <= cursor); "
                     "end = eof family; the loop body of `lex` itself (offset, read_token, the assert, two pushes) is executed in the whole/skel families" % reached,
        "checker_cmd": "./check %s --tier %s" % (pid, tier),
        "trusted_base": ["rustc -Zunpretty=mir dump reflects the compiled functions",
                         "vsym MIR interpreter + std models (validated on %d concrete calls against the natively compiled real functions: the %d texts of lexer.rs's "
                         "own unit tests + %d more, the %d texts of lib.rs's line tests + %d more)" % (nval, n_lex_texts, len(EXTRA_TEXTS), n_line_texts, len(EXTRA_LINE_TEXTS)),
                         "z3 %s; cvc5 second opinion on a seeded sample of the verdict queries not decided by rewriting (%d asked, %d agree, %d no answer)" %
                         (z3.get_version_string(), second["asked"], second["agree"], second["no_answer"]),
                         "UTF-8 well-formedness formula (Unicode table 3-7)", "Unicode White_Space set in the model of char::is_whitespace",
                         "independent specification of line breaks (LF, CRLF, lone CR) in vsym/lexcheck.py",
                         "the induction argument from single loop iterations to whole texts (paper)"],
        "functions_encoded": sorted(fns),
        "std_models_used": sorted(m for m in models_used if m not in hooks),
        "hooks": hooks, "second_solver": second, "counterexamples_not_reproduced": unreproduced[:20],
        "bounds": bounds,
        "paths": paths, "paths_per_family": fam_paths, "queries": queries, "assertion_queries": checks, "pruned_branches": pruned,
        "solver_time_s": round(stime, 2), "per_harness": per,
        "vacuity_witnesses": sorted(vac), "translator_validation_runs": nval,
        "samples": samples,
        "outside_the_claim": OUTSIDE,
        "level_note": "partial claim: the lexer and the line table of dora-parser are decided up to the stated bounds, the parser and the green tree only on "
                      "texts of <= %d bytes; longer programs through parser and tree, semantic analysis and driver - the largest part of the property - are outside" % reach["parse"],
    }
    assumptions = ["source texts are well-formed UTF-8 (they are &str)", "usize is 64 bit",
                   "Vec/&str/String modelled as concrete-length sequences of symbolic elements; HashMap<&str, TokenKind> as a finite map with concrete keys "
                   "(the keyword table is built by executing the real keywords_in_map once)",
                   "char::is_whitespace is the Unicode White_Space set; char::is_digit(radix) is ASCII; table-backed predicates (is_alphabetic …) would be "
                   "uninterpreted predicates - the lexer of this tree uses none, and the properties checked do not depend on which characters are letters",
                   "slice::binary_search contract: Ok(i) with s[i] == x, else Err(insertion point), on strictly increasing slices (checked at every call)",
                   "a fresh Box allocation is non-null and aligned (vec![0] expansion in compute_line_starts)",
                   "allocation never fails"]
    try:
        common.write_evidence(pid, tier, "proof", cov, assumptions, time.time() - t0, len(rep.new))
    except Exception:
        if discharged or not rep.new:
            raise
        cov["explanation"] = "no obligation was discharged in this run (violations reported); the proof-level keys are kept for reference"
        common.write_evidence(pid, tier, "other", cov, assumptions, time.time() - t0, len(rep.new))
    log("[%s] %d obligations (%d discharged), %d paths, %d solver queries (%.1fs solver), %d assertion queries, step length reached %d, %.1fs" %
        (pid, obligations, discharged, paths, queries, stime, checks, reached, time.time() - t0))
    return rep.exit_code()


def replay(pid, path):
    d = json.load(open(path))
    r = d["replay"]
    if "cmd" not in r:
        print(json.dumps(r, indent=1))
        return 0
    nat = private_native(pid)
    try:
        text = bytes.fromhex(r["text_hex"])
        sub = r["cmd"][1]
        res = native_run(nat, sub, text)
        print(json.dumps(res, indent=1))
        bad = JUDGES[sub](text, res, pid)
        print("replay: %s" % ("; ".join(bad) if bad else "the real functions satisfy the obligations of %s on this input" % pid))
        if bad:
            print("VIOLATION property=%s replay=%s" % (pid, path))
            return 1
        return 0
    finally:
        os.unlink(nat)
