//! C07 harness crate (template).  `harnesses.rs` is generated on every run by
//! /verif/engines/kani_asm/gen_x64.py from the `pub fn` signatures of the dora-asm working
//! tree joined with /verif/spec/x64.toml.
//!
//! A *unit* (`u_<method>__<variant>`) draws the operands of one assembler method from a value
//! source, calls the real method on the assembler it is given and returns what the spec
//! expects to have been emitted.  A *group* harness (`g_<name>`) creates one assembler, picks
//! one of its units with a symbolic selector, finalizes, runs the reference decoder once and
//! asserts one named check per unit (`C07:m:<unit>`), with one `kani::cover!` per unit as
//! vacuity witness.  Grouping amortises Kani's fixed per-harness cost; attribution stays per
//! method because every unit has its own check (and its own counterexample).
//!
//! Under Kani the value source is `kani::any()`; natively (`c07-replay`) it is a list of
//! concrete numbers and the same comparison is printed as JSON, field by field.  What is
//! replayed is therefore exactly what was verified.
#![cfg_attr(kani, feature(allocator_api))]

pub mod decoder;
#[allow(unused_variables, unused_mut, unused_imports, unused_assignments, unused_parens, non_snake_case, clippy::all)]
pub mod harnesses;

use decoder::{Insn, K_REL};

/// where operand values come from
pub trait Src {
    fn u8(&mut self) -> u8;
    fn i32(&mut self) -> i32;
    fn i64(&mut self) -> i64;
    /// Kani: `kani::assume(c)`, returns true.  Native: returns c (caller bails out on false).
    fn assume(&mut self, c: bool) -> bool;
}

#[cfg(kani)]
pub struct KaniSrc;

#[cfg(kani)]
impl Src for KaniSrc {
    fn u8(&mut self) -> u8 {
        kani::any()
    }
    fn i32(&mut self) -> i32 {
        kani::any()
    }
    fn i64(&mut self) -> i64 {
        kani::any()
    }
    fn assume(&mut self, c: bool) -> bool {
        kani::assume(c);
        true
    }
}

pub struct ListSrc {
    pub vals: Vec<i64>,
    pub pos: usize,
    pub underflow: bool,
}

impl ListSrc {
    pub fn new(vals: Vec<i64>) -> ListSrc {
        ListSrc { vals, pos: 0, underflow: false }
    }
    fn next(&mut self) -> i64 {
        if self.pos < self.vals.len() {
            let v = self.vals[self.pos];
            self.pos += 1;
            v
        } else {
            self.underflow = true;
            0
        }
    }
}

impl Src for ListSrc {
    fn u8(&mut self) -> u8 {
        self.next() as u8
    }
    fn i32(&mut self) -> i32 {
        self.next() as i32
    }
    fn i64(&mut self) -> i64 {
        self.next()
    }
    fn assume(&mut self, c: bool) -> bool {
        c
    }
}

/// what a unit expects, relative to the code buffer it emitted into
#[derive(Copy, Clone)]
pub struct Exp {
    /// offset of the instruction under test
    pub at: usize,
    /// bytes that legitimately follow the instruction (filler of the label harnesses)
    pub tail: usize,
    pub exp: Insn,
    /// a second accepted decoding (commuted operands of a commutative instruction, or an
    /// architecturally indistinguishable form named in the spec)
    pub alt: Option<Insn>,
    /// the spec's legality predicate on the operands (asserted *after* the call returned)
    pub legal: bool,
    /// label units: position the label was bound to; >= 0 absolute, < 0 relative to the end
    /// of the code (-1 = last byte).  The decoded branch / RIP-relative target must equal it.
    pub target: Option<i64>,
}

pub struct Outcome {
    /// everything the assembler emitted (`finalize(1).code()`)
    pub code: Vec<u8>,
    pub e: Exp,
}

impl Outcome {
    pub fn target_abs(&self) -> Option<i64> {
        match self.e.target {
            None => None,
            Some(t) => Some(if t < 0 { self.code.len() as i64 + t } else { t }),
        }
    }
}

pub const FIELDS: [&str; 16] = [
    "decodes", "mnemonic", "opsize", "cc", "o1", "o2", "o3", "o4", "mem", "imm", "target", "prefixes", "vex", "by_cl",
    "length", "legal",
];

/// Run the reference decoder on the instruction under test.  The (at most 15) bytes are first
/// copied into a local window, so that the decoder indexes a plain array.
pub fn decode_outcome(o: &Outcome) -> Option<Insn> {
    let n = o.code.len();
    let at = o.e.at;
    if at >= n {
        return None;
    }
    let mut w = [0u8; 16];
    macro_rules! cp {
        ($($k:expr),*) => { $( if at + $k < n { w[$k] = o.code[at + $k]; } )* };
    }
    cp!(0, 1, 2, 3, 4, 5, 6, 7, 8, 9, 10, 11, 12, 13, 14, 15);
    let avail = if n - at < 16 { n - at } else { 16 };
    decoder::decode(&w[..avail], 0)
}

/// The comparison, field by field, in the order of `FIELDS` (true = agrees).
pub fn compare(o: &Outcome, got: &Option<Insn>) -> [bool; 16] {
    let mut r = [true; 16];
    r[15] = o.e.legal;
    match got {
        None => {
            r[0] = false;
        }
        Some(g) => {
            let mut e = o.e.exp;
            let mut alt = o.e.alt;
            if let Some(t) = o.target_abs() {
                let d: i64 = if g.o1.kind == K_REL { g.rel } else { g.mem.disp as i64 };
                r[10] = (o.e.at as i64) + (g.len as i64) + d == t;
                // the displacement itself is whatever reaches the target
                e.rel = g.rel;
                e.mem.disp = g.mem.disp;
                alt = None;
            } else {
                r[10] = g.rel == e.rel;
            }
            let alt_ok = match alt {
                Some(a) => g.same(&a),
                None => false,
            };
            if !alt_ok {
                r[1] = g.mn == e.mn;
                r[2] = g.opsize == e.opsize;
                r[3] = g.cc == e.cc;
                r[4] = g.o1.same(&e.o1);
                r[5] = g.o2.same(&e.o2);
                r[6] = g.o3.same(&e.o3);
                r[7] = g.o4.same(&e.o4);
                r[8] = g.mem.same(&e.mem);
                r[9] = g.imm == e.imm;
                r[11] = g.lock == e.lock && g.rep == e.rep && g.repne == e.repne && g.p66 == e.p66;
                r[12] = g.vex == e.vex;
                r[13] = g.by_cl == e.by_cl;
            } else {
                r[10] = true;
            }
            r[14] = o.e.at + g.len + o.e.tail == o.code.len();
        }
    }
    r
}

/// decode == expected (every field), nothing more or less (length), operands legal
pub fn all_ok(o: &Outcome) -> bool {
    let got = decode_outcome(o);
    let r = compare(o, &got);
    r[0] && r[1] && r[2] && r[3] && r[4] && r[5] && r[6] && r[7] && r[8] && r[9] && r[10] && r[11] && r[12] && r[13] && r[14] && r[15]
}

/// Checked no-growth model of std's Vec for the harnesses (Kani stubs, `-Z stubbing`).
/// The assembler's buffers get a fixed capacity up front (32 .. 176 elements, chosen per
/// harness); exceeding it is an *asserted*
/// check (a harness whose code does not fit is reported as inconclusive, never silently
/// truncated).  This removes the "reallocate at a symbolic length" case split that makes
/// CBMC's formula explode (> 50 GB) as soon as an instruction has a variable-length prefix.
/// Part of the trusted base: std's Vec growth itself is not exercised.
#[cfg(kani)]
pub mod vecmodel {
    use std::alloc::Allocator;
    /// capacities: 32 is enough for one instruction (<= 15 bytes) plus the label harness
    /// scaffolding with a short filler, 176 for the longest filler (128 + 7) of the branch units
    pub fn new_32<T>() -> Vec<T> {
        Vec::with_capacity(32)
    }
    pub fn new_64<T>() -> Vec<T> {
        Vec::with_capacity(64)
    }
    pub fn new_96<T>() -> Vec<T> {
        Vec::with_capacity(96)
    }
    pub fn new_128<T>() -> Vec<T> {
        Vec::with_capacity(128)
    }
    pub fn new_176<T>() -> Vec<T> {
        Vec::with_capacity(176)
    }

    pub fn push<T, A: Allocator>(v: &mut Vec<T, A>, x: T) {
        let len = v.len();
        kani::assert(len < v.capacity(), "C07-model: Vec capacity exceeded (push)");
        unsafe {
            v.set_len(len + 1);
            core::ptr::write(&mut v[len], x);
        }
    }

    pub fn extend_from_slice<T: Clone, A: Allocator>(v: &mut Vec<T, A>, s: &[T]) {
        let len = v.len();
        let n = s.len();
        kani::assert(n <= 16 && len + n <= v.capacity(), "C07-model: Vec capacity exceeded (extend_from_slice)");
        unsafe {
            v.set_len(len + n);
        }
        macro_rules! cp {
            ($($k:expr),*) => { $( if $k < n { unsafe { core::ptr::write(&mut v[len + $k], s[$k].clone()); } } )* };
        }
        cp!(0, 1, 2, 3, 4, 5, 6, 7, 8, 9, 10, 11, 12, 13, 14, 15);
    }

    /// `<[u8]>::copy_from_slice`: element-wise, at most 16 elements.  Reached through the
    /// overwrite branch of dora-asm's emit_u32/u64/u128 (`Write for &mut [u8]`), where std
    /// would issue a memcpy of symbolic size.
    pub fn copy_from_slice<T: Copy>(dst: &mut [T], src: &[T]) {
        let n = src.len();
        kani::assert(n <= 16 && dst.len() == n, "C07-model: copy_from_slice longer than 16 or length mismatch");
        macro_rules! cp {
            ($($k:expr),*) => { $( if $k < n { dst[$k] = src[$k]; } )* };
        }
        cp!(0, 1, 2, 3, 4, 5, 6, 7, 8, 9, 10, 11, 12, 13, 14, 15);
    }
}
