"""C09 — mutexes, conditions, joins keep their promises in every interleaving (MIR-bmc).

Unit: Dora's `Mutex`/`Condition` from pkgs/std/thread.dora of the working tree (translated
mechanically to Rust by vsym/dora2rs.py, then to MIR) on top of the REAL MIR of their native
halves: stdlib.rs natives, runtime/waitlists.rs `WaitLists::{block, enqueue,
conditionally_enqueue, wakeup, wakeup_all}`, `append_to_waitlist`, threads.rs
`DoraThread::{block, prepare_for_waitlist, set_waitlist_successor, remove_from_waitlist, stop,
join}`.  The address-keyed table (`ObjectHashMap`) is abstracted to a two-key map (its own step
lemma belongs to C03); `DoraThreadPtr` values are thread numbers; `parked_scope`'s park/unpark
is skipped (that protocol is C04)."""
import json
import os
import re
import time

import z3

from .. import common
from ..common import Inconclusive, log
from ..mir import parse as P
from ..mir import bmc as B
from ..mir import cmodels as CM
from ..mir import rtmodels as RM
from ..mir import bmccheck as BC
from ..mir.structs import Layouts
from ..mir.interp import Adt, Cell, Int, Opaque, Panic, Ref, Tup, UNIT, get_path
from ..mir.models import write_ref, some, NONE, deref

PID = "C09"
ENV = []


def em(name):
    def deco(fn):
        ENV.append((re.compile(r"(\w+::)*" + name), fn))
        return fn
    return deco


PRIVATE = ("verif_thread_id", "verif_hm", "verif_hc", "verif_mutex", "verif_cond", "verif_thread", "verif_flag_get", "verif_flag_set",
           "verif_work_done_set", "verif_work_done_check", "verif_count_is_zero", "verif_count_inc", "verif_count_dec")


def visible(callee):
    last = callee.split("::")[-1]
    if last in PRIVATE:
        return False
    if re.fullmatch(r"(\w+::)*AtomicInt32::(get|set|exchange|compare_exchange|fetch_add)", callee):
        return True
    return CM.visible(callee)


def root(it, n):
    return it.system.roots[n]


def gget(it, *path):
    return get_path(root(it, "ghost").v, path)


def gset(it, path, v):
    write_ref(Ref(root(it, "ghost"), path), v)


G_INCS, G_FLAG, G_WORK, G_ENTERED, G_COUNT = 0, 1, 2, 3, 4


@em("verif_thread_id")
def e_tid(it, ctx, callee, args):
    return Int(it.thread + 1, "i64")


@em("verif_hm")
def e_hm(it, ctx, callee, args):
    return Opaque("handle:mtx")


@em("verif_hc")
def e_hc(it, ctx, callee, args):
    return Opaque("handle:cnd")


@em("verif_mutex")
def e_mutex(it, ctx, callee, args):
    return Ref(root(it, "mtx"))


@em("verif_cond")
def e_cond(it, ctx, callee, args):
    return Ref(root(it, "cnd"))


@em("verif_thread")
def e_thread(it, ctx, callee, args):
    return Ref(root(it, "thr%d" % args[0].conc()))


@em("verif_cs_enter")
def e_cs_enter(it, ctx, callee, args):
    n = gget(it, G_INCS)
    if ctx.branch(n.t != 0):
        raise Panic("GHOST: two critical sections under the same mutex overlap", "env")
    gset(it, (G_INCS,), Int(n.t + 1, "u8"))
    gset(it, (G_ENTERED,), Int(gget(it, G_ENTERED).t + 1, "u8"))
    return UNIT


@em("verif_cs_leave")
def e_cs_leave(it, ctx, callee, args):
    n = gget(it, G_INCS)
    gset(it, (G_INCS,), Int(n.t - 1, "u8"))
    return UNIT


@em("verif_flag_get")
def e_flag_get(it, ctx, callee, args):
    return gget(it, G_FLAG)


@em("verif_flag_set")
def e_flag_set(it, ctx, callee, args):
    gset(it, (G_FLAG,), z3.BoolVal(True))
    return UNIT


@em("verif_count_is_zero")
def e_count_zero(it, ctx, callee, args):
    return gget(it, G_COUNT).t == 0


@em("verif_count_inc")
def e_count_inc(it, ctx, callee, args):
    gset(it, (G_COUNT,), Int(gget(it, G_COUNT).t + 1, "u8"))
    return UNIT


@em("verif_count_dec")
def e_count_dec(it, ctx, callee, args):
    c = gget(it, G_COUNT)
    if ctx.branch(c.t == 0):
        raise Panic("GHOST: consumer took an item from an empty counter", "env")
    gset(it, (G_COUNT,), Int(c.t - 1, "u8"))
    return UNIT


@em("verif_work_done_set")
def e_work_set(it, ctx, callee, args):
    gset(it, (G_WORK,), z3.BoolVal(True))
    return UNIT


@em("verif_work_done_check")
def e_work_check(it, ctx, callee, args):
    if ctx.branch(z3.Not(gget(it, G_WORK))):
        raise Panic("GHOST: join() returned before the joined thread's last write / stop()", "env")
    return UNIT


# -- Dora's @internal atomics on the object's state word (one indivisible step each)

def aref(a):
    """&mut AtomicInt32 (a field of the managed object) -> ref to its i32"""
    if not isinstance(a, Ref):
        raise Inconclusive("AtomicInt32 receiver %r" % (a,))
    return Ref(a.cell, a.path + (0,))


@em("AtomicInt32::get")
def a_get(it, ctx, callee, args):
    r = aref(args[0])
    return get_path(r.cell.v, r.path)


@em("AtomicInt32::set")
def a_set(it, ctx, callee, args):
    write_ref(aref(args[0]), args[1])
    return UNIT


@em("AtomicInt32::exchange")
def a_xchg(it, ctx, callee, args):
    r = aref(args[0])
    old = get_path(r.cell.v, r.path)
    write_ref(r, args[1])
    return old


@em("AtomicInt32::compare_exchange")
def a_cas(it, ctx, callee, args):
    r = aref(args[0])
    old = get_path(r.cell.v, r.path)
    write_ref(r, Int(z3.If(old.t == args[1].t, args[2].t, old.t), "i32"))
    return old


@em("AtomicInt32::fetch_add")
def a_fadd(it, ctx, callee, args):
    r = aref(args[0])
    old = get_path(r.cell.v, r.path)
    write_ref(r, Int(old.t + args[1].t, "i32"))
    return old


# -- handles, thread pointers, the address-keyed table

KEYS = {"handle:mtx": 0, "handle:cnd": 1}


def key_of(v):
    v = deref(v) if isinstance(v, Ref) else v
    if isinstance(v, Opaque) and v.what in KEYS:
        return KEYS[v.what]
    if isinstance(v, Tup) and v.name == "AddressKey":
        return v.fields[0].conc()
    raise Inconclusive("not a handle/address: %r" % (v,))


@em(r"Handle::direct_ptr")
def h_direct_ptr(it, ctx, callee, args):
    return Tup((Int(key_of(args[0]), "usize"),), name="AddressKey")


@em(r"<Handle<Managed(Mutex|Condition)> as (std::ops::|core::ops::)?Deref>::deref")
def h_deref(it, ctx, callee, args):
    k = key_of(args[0])
    return Ref(root(it, "mtx" if k == 0 else "cnd"))


def mk_tptr(idterm):
    return Tup((Tup((idterm,), name="Address"),), name="DoraThreadPtr")


def hook_tptr_new(it, ctx, fn, args):
    th = args[0]
    for t in range(it.system.T):
        if th.cell is root(it, "thr%d" % t):
            return mk_tptr(Int(t + 1, "usize"))
    raise Inconclusive("DoraThreadPtr::new of an unknown thread")


def hook_tptr_to_ref(it, ctx, fn, args):
    p = args[0]
    idt = p.fields[0].fields[0]
    if ctx.branch(idt.t == 0):
        raise Panic("null DoraThreadPtr dereferenced", "env")
    i = RM.bounded(ctx, Int(idt.t - 1, "usize"), it.system.T, "thread pointer")
    return Ref(root(it, "thr%d" % i))


def wl_ref(it, k, i):
    return Ref(root(it, "wl"), (k, i))


def hook_map_get(it, ctx, fn, args):
    k = key_of(args[1])
    present = get_path(root(it, "wl").v, (k, 0))
    if ctx.branch(present):
        ht = Tup((mk_tptr(get_path(root(it, "wl").v, (k, 1))), mk_tptr(get_path(root(it, "wl").v, (k, 2)))), name="HeadAndTail")
        return some(Ref(Cell(ht, "map-entry")))
    return NONE


def hook_map_insert(it, ctx, fn, args):
    k = key_of(args[1])
    ht = args[2]
    write_ref(wl_ref(it, k, 0), z3.BoolVal(True))
    write_ref(wl_ref(it, k, 1), ht.fields[0].fields[0].fields[0])
    write_ref(wl_ref(it, k, 2), ht.fields[1].fields[0].fields[0])
    return UNIT


def hook_map_remove(it, ctx, fn, args):
    k = key_of(args[1])
    present = get_path(root(it, "wl").v, (k, 0))
    if ctx.branch(present):
        ht = Tup((mk_tptr(get_path(root(it, "wl").v, (k, 1))), mk_tptr(get_path(root(it, "wl").v, (k, 2)))), name="HeadAndTail")
        write_ref(wl_ref(it, k, 0), z3.BoolVal(False))
        return some(ht)
    return NONE


def h_current_thread(it, ctx, fn, args):
    return Ref(root(it, "thr%d" % it.thread))


def h_get_runtime(it, ctx, fn, args):
    return Ref(root(it, "rt"))


def h_unit(it, ctx, fn, args):
    return UNIT


def h_true(it, ctx, fn, args):
    return z3.BoolVal(True)


ROLES = {"locker": "drv_c09_locker", "waiter": "drv_c09_waiter", "notifier": "drv_c09_notifier", "finisher": "drv_c09_finisher",
         "joiner": "drv_c09_joiner", "consumer": "drv_c09_consumer", "producer": "drv_c09_producer"}


def build_system(progs, roles):
    rt_prog, cmp_prog, drv_prog = progs
    models = list(ENV) + RM.RTMODELS + CM.all_models()
    T = len(roles)
    sysm = B.System([rt_prog, cmp_prog, drv_prog], models, visible, T)
    L = Layouts(common.REPO)
    TH, RTF, WLF = "dora-runtime/src/threads.rs", "dora-runtime/src/runtime.rs", "dora-runtime/src/runtime/waitlists.rs"
    sysm.hooks = {
        "current_thread": h_current_thread, "get_runtime": h_get_runtime,
        "DoraThreadPtr::new": hook_tptr_new, "DoraThreadPtr::to_ref": hook_tptr_to_ref,
        "ObjectHashMap::get": hook_map_get, "ObjectHashMap::insert": hook_map_insert, "ObjectHashMap::remove": hook_map_remove,
        # the stop-the-world side of blocking (park/unpark around the wait) is property C04
        "DoraThread::park": h_unit, "DoraThread::unpark": h_unit, "DoraThread::is_running": h_true,
    }
    for need in ("ObjectHashMap::get", "ObjectHashMap::insert", "ObjectHashMap::remove", "DoraThreadPtr::new", "DoraThreadPtr::to_ref"):
        if rt_prog.find(need) is None:
            raise Inconclusive("function %s not found in the MIR dump (hook target)" % need)
    null_ptr = lambda: mk_tptr(Int(0, "usize"))
    for t in range(T):
        bd = L.make(TH, "BlockingData", blocking=CM.mk_mutex(Tup((z3.BoolVal(False), null_ptr()))), cv_blocking=CM.mk_condvar(10 + t))
        jd = L.make(TH, "JoinData", running=CM.mk_mutex(z3.BoolVal(True)), cv_stopped=CM.mk_condvar(20 + t))
        thr = L.make(TH, "DoraThread", id=Int(t, "usize"), blocking_data=bd, join_data=jd)
        sysm.add_root("thr%d" % t, thr)
    wl = L.make(WLF, "WaitLists", data=CM.mk_mutex(Opaque("table")))
    rt = L.make(RTF, "Runtime", wait_lists=wl)
    sysm.add_root("rt", rt)
    sysm.add_root("wl", Tup([Tup((z3.BoolVal(False), Int(0, "usize"), Int(0, "usize"))) for _ in range(2)]))
    unlocked = dora_const("UNLOCKED")
    sysm.add_root("mtx", Tup((None, CM.mk_atomic(Int(unlocked, "i32")), Int(0, "i64")), name="Mutex"))
    sysm.add_root("cnd", Tup((None, CM.mk_atomic(Int(0, "i32"))), name="Condition"))
    sysm.add_root("sched", Tup([Int(0, "u8") for _ in range(T)]))
    sysm.add_root("ghost", Tup((Int(0, "u8"), z3.BoolVal(False), z3.BoolVal(False), Int(0, "u8"), Int(0, "u8"))))
    for t, r in enumerate(roles):
        fn = drv_prog.find(ROLES[r[0]])
        if fn is None:
            raise Inconclusive("driver %s missing" % ROLES[r[0]])
        args = [Int(t, "usize")]
        if r[0] == "locker":
            args.append(Int(r[1], "usize"))
        elif r[0] == "notifier":
            args.append(z3.BoolVal(bool(r[1])))
        elif r[0] == "joiner":
            args.append(Int(r[1], "usize"))
        elif r[0] == "producer":
            # ("producer", rounds, all, outside)
            args += [Int(r[1], "usize"), z3.BoolVal(bool(r[2])), z3.BoolVal(bool(r[3]))]
        sysm.add_thread(fn, args)
    return sysm


def dora_const(name):
    src = open(os.path.join(common.REPO, "pkgs/std/thread.dora")).read()
    m = re.search(r"^const\s+%s\s*:\s*\w+\s*=\s*(-?\d+)" % name, src, flags=re.M)
    if not m:
        raise Inconclusive("constant %s not found in thread.dora" % name)
    return int(m.group(1))


def load_progs():
    rt = P.parse_file(common.mir_dump("dora-runtime"), common.REPO)
    cmp_ = P.parse_file(common.mir_dump("dora-compiler"), common.REPO)
    drv = P.parse_file(common.drivers_mir_dump(), os.path.join(common.WORK, "drivers-src"))
    st = open(os.path.join(common.WORK, "mir", "c09_gen.status")).read()
    if st != "ok":
        raise Inconclusive("pkgs/std/thread.dora could not be translated: " + st)
    for need in ("WaitLists::block", "WaitLists::wakeup", "WaitLists::wakeup_all", "WaitLists::enqueue", "append_to_waitlist",
                 "DoraThread::block", "DoraThread::remove_from_waitlist", "DoraThread::stop", "DoraThread::join", "mutex_wait",
                 "condition_wakeup_one"):
        if rt.find(need) is None:
            raise Inconclusive("%s not found in the MIR dump of dora-runtime" % need)
    return rt, cmp_, drv


def run_config(progs, cfg, tmo, deadline, qjobs=4):
    K = cfg["K"]
    t0 = time.time()
    sysm = build_system(progs, cfg["roles"])
    sysm.build(deadline)
    nn = sum(len(n) for n, e in sysm.cfa)
    ne = sum(len(e) for n, e in sysm.cfa)
    tb = time.time() - t0
    t1 = time.time()
    U = sysm.encode(K)
    res = {"cfg": cfg, "K": K, "nodes": nn, "edges": ne, "build_s": round(tb, 1), "encode_s": round(time.time() - t1, 1)}
    wit = [("witness-all-finish", U.all_done(K))]
    names = [r[0] for r in cfg["roles"]]
    if names.count("locker") >= 2:
        wit.append(("witness-contended-lock-blocks-in-the-runtime", U.fired(lambda e: "DoraThread::block" in B.node_name(e.src)
                                                                            and "Condvar::wait" in e.label)))
    if "waiter" in names or "consumer" in names:
        wit.append(("witness-waiter-blocks-on-the-condition", U.fired(lambda e: "condition_block_after_enqueue" in B.node_name(e.src)
                                                                       and "Condvar::wait" in e.label)))
    if "joiner" in names:
        wit.append(("witness-join-waits", U.fired(lambda e: "DoraThread::join" in B.node_name(e.src) and "Condvar::wait" in e.label)))
    qs = BC.standard_queries(U, [], wit)
    res["queries"] = BC.decide_all(U, qs, tmo, "c09-%s-%d" % (cfg["name"], K), qjobs, PID, cfg["name"])
    res["fns"] = sorted(sysm.interp_fns)
    res["models"] = sorted(sysm.models_used)
    res["cfa_stats"] = sysm.stats
    return res


CONFIGS = {
    # first entry = core configuration (must be decided completely)
    "quick": [
        {"name": "2-lockers", "roles": [("locker", 1), ("locker", 1)], "K": 40},
        {"name": "waiter+notify_one", "roles": [("waiter",), ("notifier", 0)], "K": 50},
        {"name": "waiter+notify_all", "roles": [("waiter",), ("notifier", 1)], "K": 50},
        {"name": "join", "roles": [("finisher",), ("joiner", 0)], "K": 20},
        {"name": "consumer+producer-notifies-after-unlock", "roles": [("consumer",), ("producer", 1, 0, 1)], "K": 55},
    ],
    "thorough": [
        {"name": "2-lockers", "roles": [("locker", 1), ("locker", 1)], "K": 40},
        {"name": "waiter+notify_one", "roles": [("waiter",), ("notifier", 0)], "K": 50},
        {"name": "waiter+notify_all", "roles": [("waiter",), ("notifier", 1)], "K": 50},
        {"name": "join", "roles": [("finisher",), ("joiner", 0)], "K": 20},
        {"name": "2-lockers-2-rounds", "roles": [("locker", 2), ("locker", 2)], "K": 75},
        {"name": "3-lockers", "roles": [("locker", 1), ("locker", 1), ("locker", 1)], "K": 70},
        {"name": "2-waiters+notify_all", "roles": [("waiter",), ("waiter",), ("notifier", 1)], "K": 85},
        {"name": "2-waiters+notify_one+notify_one", "roles": [("waiter",), ("waiter",), ("notifier", 0), ("notifier", 0)], "K": 110},
        {"name": "consumer+producer-notifies-after-unlock", "roles": [("consumer",), ("producer", 1, 0, 1)], "K": 55},
        {"name": "2-consumers+producer-2-rounds-notify_all-after-unlock", "roles": [("consumer",), ("consumer",), ("producer", 2, 1, 1)], "K": 120},
        {"name": "2-consumers+producer-2-rounds-notify_one-after-unlock", "roles": [("consumer",), ("consumer",), ("producer", 2, 0, 1)], "K": 120},
    ],
}


def _cfg_worker(a):
    progs, cfg, tmo, deadline = a
    deadline = time.time() + deadline
    try:
        return run_config(progs, cfg, tmo, deadline, qjobs=4)
    except Inconclusive as e:
        return {"inconclusive": "%s: %s" % (cfg["name"], e)}


def main(tier):
    t0 = time.time()
    progs = load_progs()
    rep = common.Reporter(PID)
    tmo = 600 if tier == "quick" else 2400
    deadline = 1500 if tier == "quick" else 3300      # seconds for the CFA construction of ONE configuration, counted from its start
    cfgs = CONFIGS[tier]
    only = os.environ.get("VERIF_C09_ONLY")        # development aid: run the configurations whose name contains this text
    if only:
        cfgs = [c for c in cfgs if only in c["name"]] or cfgs
    # part (b): the emitted x86-64 of the atomic intrinsics is one indivisible instruction (vsym/checks/c09b.py),
    # decided concurrently with the protocol configurations
    items = [("cfg", (progs, c, tmo, deadline)) for c in cfgs] + ([] if only else [("partb", tier)])

    def work(item):
        if item[0] == "partb":
            from . import c09b
            try:
                return {"partb": c09b.run(item[1])}
            except Inconclusive as e:
                return {"partb_inconclusive": str(e)}
        return _cfg_worker(item[1])
    allres = list(common.fork_map(work, items, min(len(items), 5)))
    bres = {}
    results = []
    for r in allres:
        if "partb" in r:
            bres["out"] = r["partb"]
        elif "partb_inconclusive" in r:
            bres["inconclusive"] = r["partb_inconclusive"]
        else:
            results.append(r)
    if "inconclusive" in results[0]:
        raise Inconclusive(results[0]["inconclusive"])
    incon = [r["inconclusive"] for r in results if "inconclusive" in r]
    results = [r for r in results if "inconclusive" not in r]
    states = sum(r["nodes"] for r in results)
    trans = sum(r["edges"] for r in results)
    b = bres.get("out")
    b_problem = bres.get("inconclusive")
    if b is not None:
        for v in b["violations"]:
            rep.violation(v["key"], v["what"], v["replay"])
        if b["unsupported"] or b["inconclusive"]:
            b_problem = "; ".join(b["unsupported"] + b["inconclusive"])[:600]
    nq, undecided, bounded = BC.judge(results, rep, "sync", lambda r: r["cfg"]["name"])
    if b_problem and not rep.new and not only:
        raise Inconclusive("part (b), atomic intrinsics as emitted code: " + b_problem)
    core = results[0]
    cov = {
        "states": states, "transitions": trans,
        "traces_validated_against_impl": sum(r.get("_replayed", 0) for r in results),
        "samples": [{"config": r["cfg"], "K": r["K"], "nodes": r["nodes"], "edges": r["edges"]} for r in results]
        + [{"query": n, **{k: v for k, v in q.items() if k not in ("trace", "replay_log")}} for n, q in core["queries"].items()],
        "configurations": [{k: v for k, v in r.items() if k not in ("fns", "models")} for r in results],
        "configurations_inconclusive": incon,
        "functions_encoded": sorted(set(f for r in results for f in r["fns"])), "models_used": core["models"], "queries": nq,
        "undecided_or_bounded": undecided + bounded,
        "part_b_atomic_intrinsics_as_emitted_code": ({k: b[k] for k in ("kernels", "verdict_queries", "verdict_queries_undecided", "translator_validation_runs",
                                                                        "wall_s") if k in b} if b else None),
        "part_b_verdicts": ([{"kernel": v["kernel"], "backend": v["backend"], "status": v["status"], "shape_ok": v["shape_ok"]} for v in b["verdicts"]] if b else None),
        "bounds": "thread roles per configuration; every schedule of at most K steps; 'unfinished-at-K' unsat certifies that K covers all complete executions",
        "outside_the_claim": ["the address-keyed table itself (abstracted to a two-key map)",
                              "collections moving the mutex/condition objects while threads are queued", "spawn", "more than 3 threads",
                              "park/unpark around blocking (C04)", "Mutex::lock[T] wrapper (generic closure call) — its body lock_op; fct(); unlock_op is what the drivers do"],
    }
    assumptions = ["sequentially consistent memory", "parking_lot::Condvar has no spurious wake-ups", "notify_one wakes an adversarially chosen waiter",
                   "Dora's @internal AtomicInt32 operations are indivisible", "pkgs/std/thread.dora translated statement by statement into Rust (vsym/dora2rs.py); integer and boolean semantics coincide for the constructs used",
                   "Thread::current().id() is a distinct non-zero id per thread"]
    common.write_evidence(PID, tier, "model_checking", cov, assumptions, time.time() - t0, len(rep.new))
    return rep.exit_code()


def replay(path):
    d = json.load(open(path))
    for s in d["replay"].get("trace", []):
        print(s)
    for l in d["replay"].get("replay_log") or []:
        print(l)
    return 0
