//! Plain-text/JSON rendering of replay results (native only).
use crate::decoder::{decode_opt, Insn, Reg};

pub struct Report {
    pub method: String,
    pub kind: String,
    pub args: Vec<i128>,
    pub refused: bool,
    pub panic_msg: String,
    pub legal: bool,
    pub contract: bool,
    pub words: Vec<u32>,
    pub ok: bool,
    pub expected: Option<Insn>,
    /// byte position of the word(s) that matter (label replays), else 0
    pub focus: usize,
    pub note: String,
}

fn reg_json(r: &Reg) -> String {
    format!("{{\"n\":{},\"k\":\"{:?}\"}}", r.n, r.k)
}

pub fn insn_json(i: &Insn) -> String {
    format!(
        "{{\"op\":\"{:?}\",\"form\":\"{:?}\",\"size\":{},\"rd\":{},\"rn\":{},\"rm\":{},\"ra\":{},\"imm\":{},\"imm2\":{},\"sh\":{},\"amt\":{},\"cond\":{}}}",
        i.op(), i.form(), i.size(), reg_json(&i.rd()), reg_json(&i.rn()), reg_json(&i.rm()), reg_json(&i.ra()), i.imm, i.imm2(), i.sh(), i.amt(), i.cond()
    )
}

pub fn opt_insn_json(i: &Option<Insn>) -> String {
    match i { Some(i) => insn_json(i), None => "null".to_string() }
}

fn esc(s: &str) -> String {
    s.chars().map(|c| match c { '"' => "'".to_string(), '\\' => "/".to_string(), '\n' => " ".to_string(), c => c.to_string() }).collect()
}

impl Report {
    pub fn to_json(&self) -> String {
        let words: Vec<String> = self.words.iter().map(|w| format!("{}", w)).collect();
        let dec: Vec<String> = self.words.iter().map(|w| opt_insn_json(&decode_opt(*w))).collect();
        let args: Vec<String> = self.args.iter().map(|a| format!("\"{}\"", a)).collect();
        format!(
            "{{\"method\":\"{}\",\"kind\":\"{}\",\"args\":[{}],\"refused\":{},\"panic\":\"{}\",\"legal\":{},\"contract\":{},\"words\":[{}],\"decoded\":[{}],\"expected\":{},\"ok\":{},\"focus\":{},\"note\":\"{}\"}}",
            self.method, self.kind, args.join(","), self.refused, esc(&self.panic_msg), self.legal, self.contract,
            words.join(","), dec.join(","), opt_insn_json(&self.expected), self.ok, self.focus, esc(&self.note)
        )
    }
}
