"""Seeded generator of `match` kernels for C11, their first-match oracle, and Dora drivers.

A kernel is   @NeverInline fn mN(x: T): Int32 { match x { p1 [if g(x)] => v1, … } }
The generator owns the *pattern list*; the oracle is built from that list only (never from
compiler output).  Values are Python data: Int*/UInt8/Char -> int, Bool -> bool, payload-free
enum -> variant index, tuple -> tuple, enum with payloads -> (variant index, (fields…)).

Pattern AST (tuples):
    ("lit", v) ("const", NAME) ("wild",) ("bind", name) ("alt", [p…]) ("tuple", [p…])
    ("ctor", enum, variant_idx, [p…])
"""
import random

import z3

from .interp import INT_BITS, EnumVal, TupleVal, is_simple_enum, split_top

RANGE = {"Int32": (-(1 << 31), (1 << 31) - 1), "Int64": (-(1 << 63), (1 << 63) - 1), "UInt8": (0, 255),
         "Char": (0, 0x10FFFF)}
SUFFIX = {"Int32": "i32", "Int64": "i64", "UInt8": "u8"}


class Arm:
    def __init__(self, pat, value, guard=None):
        self.pat, self.value, self.guard = pat, value, guard   # value: int | ("bound", name)


class MatchFn:
    def __init__(self, name, T, arms, shape):
        self.name, self.T, self.arms, self.shape = name, T, arms, shape
        self.enums = {}        # name -> [(variant, [field types])]
        self.consts = {}       # NAME -> (type, value)
        self.guards = {}       # fn name -> (arg type, body source)
        self.expect_reject = False
        self.note = ""

    def key(self):
        return "%s/%s" % (self.T if self.T in RANGE or self.T == "Bool" else self.tclass(), self.shape)

    def tclass(self):
        if self.T in RANGE or self.T == "Bool":
            return self.T
        if self.T.startswith("("):
            return "tuple"
        if self.T in self.enums:
            return "enum" if is_simple_enum(self.enums[self.T]) else "enum_payload"
        return self.T


# ---------------------------------------------------------------------------------------
# rendering

def char_lit(cp):
    esc = {0: "\\0", 9: "\\t", 10: "\\n", 13: "\\r", 39: "\\'", 92: "\\\\", 34: "\\\"", 36: "\\$"}
    return "'" + (esc[cp] if cp in esc else chr(cp)) + "'"


def lit_src(T, v, rng=None, pattern=False):
    if T == "Bool":
        return "true" if v else "false"
    if T == "Char":
        return char_lit(v)
    if T in SUFFIX:
        # patterns also accept the bare literal; use both spellings
        if pattern and rng is not None and rng.random() < 0.5 and T != "UInt8":
            return str(v)
        return "%d%s" % (v, SUFFIX[T])
    raise ValueError(T)


def value_src(fn_or_enums, T, v):
    enums = fn_or_enums.enums if isinstance(fn_or_enums, MatchFn) else fn_or_enums
    if T in ("Bool", "Char") or T in SUFFIX:
        return lit_src(T, v)
    if T.startswith("("):
        ts = split_top(T[1:-1])
        return "(" + ", ".join(value_src(enums, t, x) for t, x in zip(ts, v)) + ")"
    decl = enums[T]
    if is_simple_enum(decl):
        return "%s::%s" % (T, decl[v][0])
    tag, fields = v
    vn, fts = decl[tag]
    if "[" in T:      # std generic: Option[T]
        targ = T[T.index("["):]
        if not fts:
            return "%s%s" % (vn, targ)
        return "%s%s(%s)" % (vn, targ, ", ".join(value_src(enums, t, x) for t, x in zip(fts, fields)))
    if not fts:
        return "%s::%s" % (T, vn)
    return "%s::%s(%s)" % (T, vn, ", ".join(value_src(enums, t, x) for t, x in zip(fts, fields)))


def pat_src(fn, T, p, rng):
    k = p[0]
    if k == "lit":
        return lit_src(T, p[1], rng, pattern=True)
    if k == "const":
        return p[1]
    if k == "wild":
        return "_"
    if k == "bind":
        return p[1]
    if k == "alt":
        return " | ".join(pat_src(fn, T, q, rng) for q in p[1])
    if k == "tuple":
        ts = split_top(T[1:-1])
        return "(" + ", ".join(pat_src(fn, t, q, rng) for t, q in zip(ts, p[1])) + ")"
    if k == "ctor":
        vn, fts = fn.enums[p[1]][p[2]]
        pre = "" if "[" in p[1] else p[1] + "::"
        if not fts:
            return pre + vn
        return "%s%s(%s)" % (pre, vn, ", ".join(pat_src(fn, t, q, rng) for t, q in zip(fts, p[3])))
    raise ValueError(p)


def fn_src(fn, guard_override=None):
    """Source of the kernel, its enums/consts and guard functions.  guard_override: name -> bool
    replaces guard bodies by constants (replay of a model in which guards are uninterpreted)."""
    rng = random.Random(sum(map(ord, fn.name)))    # spelling choices only
    out = []
    for en, decl in fn.enums.items():
        if "[" in en:
            continue      # std generic (Option[T])
        out.append("enum %s { %s }" % (en, ", ".join(
            vn + ("(" + ", ".join(fts) + ")" if fts else "") for vn, fts in decl)))
    for cn, (ct, cv) in fn.consts.items():
        out.append("const %s: %s = %s;" % (cn, ct, lit_src(ct, cv)))
    for gn, (gt, body) in fn.guards.items():
        if guard_override is not None:
            body = "true" if guard_override.get(gn, False) else "false"
        out.append("@NeverInline fn %s(x: %s): Bool { %s }" % (gn, gt, body))
    arms = []
    for a in fn.arms:
        s = pat_src(fn, fn.T, a.pat, rng)
        if a.guard:
            s += " if %s(x)" % a.guard
        v = a.value
        arms.append("%s => %s" % (s, ("%di32" % v) if isinstance(v, int) else v[1]))
    out.append("@NeverInline fn %s(x: %s): Int32 { match x { %s } }" % (fn.name, fn.T, ", ".join(arms)))
    return "\n".join(out)


def id_name(T):
    return "id_" + "".join(ch if ch.isalnum() else "_" for ch in T)


def program_src(fns, calls, guard_override=None):
    """calls: list of (fn, python value).  One `println` of the result per call, in order."""
    out = ["use std::string::Stringable;"]
    seen = set()
    for fn in fns:
        out.append(fn_src(fn, guard_override))
        if fn.T not in seen:
            seen.add(fn.T)
            out.append("@NeverInline fn %s(x: %s): %s { x }" % (id_name(fn.T), fn.T, fn.T))
    out.append("fn main() {")
    for fn, v in calls:
        out.append("  println(%s(%s(%s)).to_string());" % (fn.name, id_name(fn.T), value_src(fn, fn.T, v)))
    out.append("}")
    return "\n".join(out) + "\n"


# ---------------------------------------------------------------------------------------
# oracle (z3) — first arm whose pattern and guard hold

def pat_cond(fn, T, p, val, binds):
    k = p[0]
    if k == "wild":
        return z3.BoolVal(True)
    if k == "bind":
        binds[p[1]] = val
        return z3.BoolVal(True)
    if k == "lit" or k == "const":
        v = p[1] if k == "lit" else fn.consts[p[1]][1]
        if T == "Bool":
            return val if v else z3.Not(val)
        return val == z3.BitVecVal(v, INT_BITS[T])
    if k == "alt":
        return z3.Or([pat_cond(fn, T, q, val, binds) for q in p[1]])
    if k == "tuple":
        ts = split_top(T[1:-1])
        return z3.And([pat_cond(fn, t, q, x, binds) for t, q, x in zip(ts, p[1], val.items)])
    if k == "ctor":
        decl = fn.enums[p[1]]
        if is_simple_enum(decl):
            return val == z3.BitVecVal(p[2], 32)
        fts = decl[p[2]][1]
        cs = [val.tag == z3.BitVecVal(p[2], 32)]
        cs += [pat_cond(fn, t, q, x, binds) for t, q, x in zip(fts, p[3], val.fields[p[2]])]
        return z3.And(cs)
    raise ValueError(p)


def oracle(fn, x, ufs):
    """-> (result BV32 term, arm index BV32 term (-1: no arm), [per-arm condition])."""
    res = z3.BitVecVal(-1, 32)
    armi = z3.BitVecVal(-1, 32)
    conds = []
    for i, a in enumerate(fn.arms):
        binds = {}
        c = pat_cond(fn, fn.T, a.pat, x, binds)
        if a.guard:
            c = z3.And(c, ufs[a.guard](x))
        v = z3.BitVecVal(a.value, 32) if isinstance(a.value, int) else binds[a.value[1]]
        conds.append((c, v))
    for i in range(len(fn.arms) - 1, -1, -1):
        c, v = conds[i]
        res = z3.If(c, v, res)
        armi = z3.If(c, z3.BitVecVal(i, 32), armi)
    return res, armi, [c for c, _ in conds]


def model_value(model, T, val, enums):
    """Python value of the symbolic scrutinee in a model (completion on)."""
    if val is None:
        return None
    if isinstance(val, TupleVal):
        ts = split_top(T[1:-1])
        return tuple(model_value(model, t, x, enums) for t, x in zip(ts, val.items))
    if isinstance(val, EnumVal):
        tag = model.eval(val.tag, model_completion=True).as_long()
        fts = enums[T][tag][1]
        return (tag, tuple(model_value(model, t, x, enums) for t, x in zip(fts, val.fields[tag])))
    v = model.eval(val, model_completion=True)
    if z3.is_bool(v):
        return z3.is_true(v)
    if T in ("UInt8", "Char") or T not in INT_BITS:
        return v.as_long()
    return v.as_signed_long()


def z3_value(T, v, enums):
    """Python value -> concrete z3 value of the interpreter's representation."""
    if T == "Bool":
        return z3.BoolVal(bool(v))
    if T in INT_BITS:
        return z3.BitVecVal(v, INT_BITS[T])
    if T.startswith("("):
        ts = split_top(T[1:-1])
        return TupleVal([z3_value(t, x, enums) for t, x in zip(ts, v)])
    decl = enums[T]
    if is_simple_enum(decl):
        return z3.BitVecVal(v, 32)
    tag, fields = v
    fs = {}
    for vi, (vn, fts) in enumerate(decl):
        if vi == tag:
            fs[vi] = [z3_value(t, x, enums) for t, x in zip(fts, fields)]
        else:
            fs[vi] = [z3_value(t, default_value(t, enums), enums) for t in fts]
    return EnumVal(T, z3.BitVecVal(tag, 32), fs)


def default_value(T, enums):
    if T == "Bool":
        return False
    if T in INT_BITS:
        return 0
    if T.startswith("("):
        return tuple(default_value(t, enums) for t in split_top(T[1:-1]))
    decl = enums[T]
    if is_simple_enum(decl):
        return 0
    return (0, tuple(default_value(t, enums) for t in decl[0][1]))


# ---------------------------------------------------------------------------------------
# literal sets

def clampT(T, v):
    lo, hi = RANGE[T]
    return max(lo, min(hi, v))


def valid_char(cp):
    return 0 <= cp <= 0x10FFFF and not (0xD800 <= cp <= 0xDFFF)


def lits_dense(rng, T, base, n_span, keep):
    """keep-density subset of [base, base+n_span), always including both ends."""
    lo, hi = RANGE[T]
    base = max(lo, min(hi - n_span + 1, base))
    vals = [base + i for i in range(n_span) if i in (0, n_span - 1) or rng.random() < keep]
    return vals


def lits_sparse(rng, T, n):
    lo, hi = RANGE[T]
    out = set()
    while len(out) < n:
        r = rng.random()
        if r < 0.4:
            out.add(rng.randint(lo, hi))
        elif r < 0.7:
            out.add(clampT(T, rng.randint(-2000, 2000)))
        else:
            out.add(clampT(T, rng.choice([lo, hi, 0, 127, 128, 129, 255, 256, -1, -128, -129, 65535, 65536,
                                          (1 << 31) - 1, -(1 << 31), (1 << 32), (1 << 32) + 5, -(1 << 32) - 3])
                          + rng.randint(-2, 2)))
    vals = sorted(out)
    if vals[-1] - vals[0] < 129:
        if T == "UInt8":
            vals[0], vals[-1] = rng.randint(0, 20), rng.randint(200, 255)
        else:
            vals[-1] = clampT(T, vals[0] + 129 + rng.randint(0, 1000))
            if vals[-1] - vals[0] < 129:
                vals[0] = vals[-1] - 129 - rng.randint(0, 1000)
    return sorted(set(vals))


def group_arms(rng, lits, max_arms, alt_p):
    """Distribute literals (in random order) over arms; alt_p = probability to join the previous arm."""
    lits = list(lits)
    rng.shuffle(lits)
    arms = []
    for v in lits:
        if arms and (len(arms) >= max_arms or rng.random() < alt_p):
            rng.choice(arms).append(v)
        else:
            arms.append([v])
    return arms


def mk_pat(vals):
    ps = [("lit", v) for v in vals]
    return ps[0] if len(ps) == 1 else ("alt", ps)


# guards: body source per scrutinee type (opaque to the symbolic run; interpreted in concrete runs)
def mk_guard(rng, fn, T):
    if T in ("Int32", "Int64"):
        c = rng.choice([0, 1, -1, 5, 100, rng.randint(-1000, 1000)])
        kind = rng.choice(["gt", "lt", "and"])
        sfx = SUFFIX[T]
        if kind == "gt":
            return "x > %d%s" % (c, sfx)
        if kind == "lt":
            return "x < %d%s" % (c, sfx)
        m = rng.choice([1, 3, 6, 0x55])
        k = m & rng.randint(0, 255)
        return "(x & %d%s) == %d%s" % (m, sfx, k, sfx)
    if T == "UInt8":
        c = rng.randint(0, 255)
        if rng.random() < 0.5:
            return "x > %du8" % c
        return "x < %du8" % c
    if T == "Char":
        c = rng.choice([0x41, 0x61, 0x7a, 0x100, 0xD7FF, 0xE000, 0x10000])
        if rng.random() < 0.5:
            return "x > %s" % char_lit(c)
        return "x < %s" % char_lit(c)
    if T == "Bool":
        return rng.choice(["x", "!x", "true"])
    decl = fn.enums[T]
    if is_simple_enum(decl):
        sel = sorted(rng.sample(range(len(decl)), max(1, len(decl) // 2)))
        if len(sel) == len(decl):
            return "true"
        return "match x { %s => true, _ => false }" % " | ".join("%s::%s" % (T, decl[i][0]) for i in sel)
    raise ValueError(T)


def add_guards(rng, fn, p_guard):
    """Attach guards to some arms (never to the last one when it is what makes the match exhaustive)."""
    gnames = []
    for j in range(rng.randint(1, 2)):
        gn = "g_%s_%d" % (fn.name, j)
        fn.guards[gn] = (fn.T, mk_guard(rng, fn, fn.T))
        gnames.append(gn)
    return gnames


# ---------------------------------------------------------------------------------------
# kernels per (type, shape)

INT_SHAPES = ["dense0", "dense_pos", "dense_neg", "sparse", "few", "span128", "span129", "min_dense", "max_dense",
              "minmax", "alts", "after_wild", "dup", "guards", "guards_dense", "bind", "const"]
CHAR_SHAPES = ["chain", "extremes", "alts", "after_wild", "guards", "bind"]
BOOL_SHAPES = ["cover", "wild", "alt", "guards", "after_wild", "bind"]
ENUM_SHAPES = ["cover", "wild", "alts", "guards", "after_wild", "two", "one", "cover_alt_only", "bind"]


def classes():
    out = []
    for T in ("Int32", "Int64", "UInt8"):
        for s in INT_SHAPES:
            if T == "UInt8" and s == "dense_neg":
                continue
            out.append((T, s))
    out += [("Char", s) for s in CHAR_SHAPES]
    out += [("Bool", s) for s in BOOL_SHAPES]
    out += [("enum", s) for s in ENUM_SHAPES]
    return out


def gen_int(rng, name, T, shape):
    lo, hi = RANGE[T]
    arms = []
    fn = MatchFn(name, T, arms, shape)
    alt_p = 0.25
    max_arms = rng.randint(2, 11)
    if shape == "dense0":
        lits = lits_dense(rng, T, 0, rng.randint(3, 60), rng.uniform(0.4, 1.0))
    elif shape == "dense_pos":
        lits = lits_dense(rng, T, rng.choice([1, 2, 7, 100, 200, rng.randint(1, hi - 130)]), rng.randint(3, 90), rng.uniform(0.3, 1.0))
    elif shape == "dense_neg":
        span = rng.randint(3, 90)
        base = rng.choice([-1, -2, -span + 1, -span // 2, -span - 5, -1000, rng.randint(lo + 1, -1)])
        lits = lits_dense(rng, T, base, span, rng.uniform(0.3, 1.0))
    elif shape in ("sparse", "alts", "dup", "guards", "bind", "const"):
        if shape in ("alts", "dup", "bind", "const") and rng.random() < 0.5:
            lits = lits_dense(rng, T, clampT(T, rng.randint(-50, 200)), rng.randint(4, 40), 0.6)
        else:
            lits = lits_sparse(rng, T, rng.randint(3, 12))
        if shape == "alts":
            alt_p, max_arms = 0.6, rng.randint(2, 5)
    elif shape == "guards_dense":
        lits = lits_dense(rng, T, clampT(T, rng.randint(-20, 100)), rng.randint(3, 30), 0.7)
    elif shape == "few":
        n = rng.randint(1, 2)
        b = clampT(T, rng.choice([0, 1, -1, lo, hi - 1, rng.randint(lo, hi - 1)]))
        lits = [b] if n == 1 else [b, min(hi, b + rng.randint(1, 3))]
        lits = sorted(set(lits))
    elif shape == "span128":
        b = rng.randint(lo, hi - 127) if rng.random() < 0.5 else clampT(T, rng.choice([0, 1, -127, -64, lo, hi - 127]))
        b = min(b, hi - 127)
        mid = rng.sample(range(1, 127), rng.randint(1, 6))
        lits = sorted({b, b + 127, *[b + i for i in mid]})
    elif shape == "span129":
        b = rng.randint(lo, hi - 128) if rng.random() < 0.5 else clampT(T, rng.choice([0, 1, -128, -64, lo, hi - 128]))
        b = min(b, hi - 128)
        mid = rng.sample(range(1, 128), rng.randint(1, 6))
        lits = sorted({b, b + 128, *[b + i for i in mid]})
    elif shape == "min_dense":
        lits = lits_dense(rng, T, lo, rng.randint(3, 20), rng.uniform(0.4, 1.0))
    elif shape == "max_dense":
        span = rng.randint(3, 20)
        lits = lits_dense(rng, T, hi - span + 1, span, rng.uniform(0.4, 1.0))
    elif shape == "minmax":
        extra = [clampT(T, rng.randint(lo, hi)) for _ in range(rng.randint(1, 5))]
        lits = sorted({lo, hi, *extra, *( [lo + 1] if rng.random() < 0.5 else []), *([hi - 1] if rng.random() < 0.5 else [])})
    elif shape == "after_wild":
        lits = lits_dense(rng, T, clampT(T, rng.randint(-5, 50)), rng.randint(4, 30), 0.6) if rng.random() < 0.6 \
            else lits_sparse(rng, T, rng.randint(3, 8))
    else:
        raise ValueError(shape)
    lits = [clampT(T, v) for v in lits]
    lits = sorted(set(lits))[:40]
    if len(lits) > 14 and shape not in ("dense0", "dense_pos", "dense_neg"):
        lits = sorted(rng.sample(lits, 14) + [lits[0], lits[-1]])
        lits = sorted(set(lits))
    groups = group_arms(rng, lits, max_arms, alt_p)
    for i, gvals in enumerate(groups):
        arms.append(Arm(mk_pat(gvals), i + 1))
    final = Arm(("wild",), 0)

    if shape == "dup":
        # a literal repeated in a later arm and inside an alternative of another arm
        v = rng.choice(lits)
        arms.append(Arm(mk_pat([v] + ([rng.choice(lits)] if rng.random() < 0.5 else [])), len(arms) + 1))
        w = clampT(T, lits[-1] + 1 if lits[-1] < hi else lits[0] - 1)
        arms.insert(rng.randint(0, len(arms)), Arm(mk_pat([w, rng.choice(lits)]), len(arms) + 1))
        for i, a in enumerate(arms):
            a.value = i + 1
    if shape == "after_wild":
        pos = rng.randint(0, len(arms) - 1)
        arms.insert(pos, Arm(("wild",), 0))
        for i, a in enumerate(arms):
            a.value = i + 1
        if rng.random() < 0.5:
            final = None
    if shape in ("guards", "guards_dense"):
        gns = add_guards(rng, fn, 0.5)
        new = []
        for a in arms:
            r = rng.random()
            if r < 0.45:
                a.guard = rng.choice(gns)
                new.append(a)
                if rng.random() < 0.5:       # same pattern again, unguarded or with the other guard
                    new.append(Arm(a.pat, 0, rng.choice(gns + [None])))
            else:
                new.append(a)
        if rng.random() < 0.6:
            new.insert(rng.randint(0, len(new)), Arm(("wild",), 0, rng.choice(gns)))
        arms[:] = new
        for i, a in enumerate(arms):
            a.value = i + 1
    if shape == "bind":
        # a variable pattern takes the match out of the int-dispatch path (generic arm-by-arm lowering)
        final = Arm(("bind", "y"), ("bound", "y")) if T == "Int32" and rng.random() < 0.6 else Arm(("bind", "y"), 0)
        if T == "Int32" and rng.random() < 0.3:
            arms.insert(rng.randint(0, len(arms)), Arm(("bind", "z"), ("bound", "z"), None))
            gns = add_guards(rng, fn, 1.0)
            arms[[i for i, a in enumerate(arms) if a.pat[0] == "bind"][0]].guard = gns[0]
    if shape == "const":
        # some literals become named constants
        chosen = rng.sample(lits, min(len(lits), rng.randint(1, 3)))
        for j, v in enumerate(chosen):
            fn.consts["K_%s_%d" % (name.upper(), j)] = (T, v)
        rev = {v: k for k, (_, v) in fn.consts.items()}

        def conv(p):
            if p[0] == "lit" and p[1] in rev:
                return ("const", rev[p[1]])
            if p[0] == "alt":
                return ("alt", [conv(q) for q in p[1]])
            return p
        for a in arms:
            a.pat = conv(a.pat)
    if final is not None:
        arms.append(final)
    return fn


def gen_char(rng, name, shape):
    T = "Char"
    pool = [0, 9, 10, 13, 34, 36, 39, 92, 0x20, 0x41, 0x5a, 0x61, 0x7a, 0x7f, 0x80, 0xff, 0x100, 0x7ff, 0x800, 0xD7FF,
            0xE000, 0xFFFF, 0x10000, 0x10FFFF, 0x10FFFE, 0x1F600]
    n = rng.randint(1, 10)
    if shape == "extremes":
        lits = [0, 0x10FFFF] + rng.sample([0xD7FF, 0xE000, 0xFFFF, 0x10000, 1, 0x10FFFE], rng.randint(1, 4))
    else:
        lits = set(rng.sample(pool, min(n, len(pool))))
        while len(lits) < n:
            cp = rng.randint(0x20, 0x2fff)
            if valid_char(cp):
                lits.add(cp)
        lits = sorted(lits)
    arms = []
    fn = MatchFn(name, T, arms, shape)
    groups = group_arms(rng, lits, rng.randint(1, 8), 0.6 if shape == "alts" else 0.2)
    for i, gvals in enumerate(groups):
        arms.append(Arm(mk_pat(gvals), i + 1))
    final = Arm(("wild",), 0)
    if shape == "after_wild":
        arms.insert(rng.randint(0, len(arms) - 1), Arm(("wild",), 0))
        arms.append(Arm(mk_pat([rng.choice(lits)]), 0))
    if shape == "guards":
        gns = add_guards(rng, fn, 0.5)
        for a in list(arms):
            if rng.random() < 0.5:
                a.guard = rng.choice(gns)
                if rng.random() < 0.5:
                    arms.insert(arms.index(a) + 1, Arm(a.pat, 0, None))
        if rng.random() < 0.5:
            arms.insert(rng.randint(0, len(arms)), Arm(("wild",), 0, rng.choice(gns)))
    if shape == "bind":
        final = Arm(("bind", "y"), 0)
    arms.append(final)
    for i, a in enumerate(arms):
        if isinstance(a.value, int):
            a.value = i + 1
    arms[-1].value = 0
    return fn


def gen_bool(rng, name, shape):
    T = "Bool"
    arms = []
    fn = MatchFn(name, T, arms, shape)
    t, f = ("lit", True), ("lit", False)
    first, second = (t, f) if rng.random() < 0.5 else (f, t)
    if shape == "cover":
        arms += [Arm(first, 1), Arm(second, 2)]
    elif shape == "wild":
        arms += [Arm(first, 1), Arm(("wild",), 0)]
    elif shape == "alt":
        arms += [Arm(("alt", [first, second]), 1)]
        if rng.random() < 0.5:
            arms.append(Arm(("wild",), 0))
    elif shape == "guards":
        gns = add_guards(rng, fn, 1.0)
        arms += [Arm(first, 1, gns[0]), Arm(second, 2, rng.choice(gns + [None])), Arm(first, 3),
                 Arm(("wild",), 4, gns[-1]), Arm(second, 5)]
        if rng.random() < 0.5:
            arms.append(Arm(("wild",), 0))
    elif shape == "after_wild":
        arms += [Arm(first, 1), Arm(("wild",), 2), Arm(second, 3), Arm(first, 4)]
    elif shape == "bind":
        arms += [Arm(first, 1), Arm(("bind", "y"), 0)]
    return fn


def gen_enum(rng, name, shape):
    n = {"two": 2, "one": 1}.get(shape, rng.randint(3, 10))
    en = "E_" + name
    decl = [("V%d" % i, []) for i in range(n)]
    arms = []
    fn = MatchFn(name, en, arms, shape)
    fn.enums[en] = decl
    idx = list(range(n))
    rng.shuffle(idx)
    C = lambda i: ("ctor", en, i, [])

    def pat_of(vs):
        return C(vs[0]) if len(vs) == 1 else ("alt", [C(v) for v in vs])
    if shape in ("cover", "two", "one", "cover_alt_only"):
        groups = group_arms(rng, idx, 1 if shape == "cover_alt_only" else n, 0.3)
        for gvals in groups:
            arms.append(Arm(pat_of(gvals), 0))
        if shape in ("two", "one") and rng.random() < 0.4:
            arms[-1] = Arm(("wild",), 0)
    elif shape in ("wild", "alts", "bind"):
        k = rng.randint(1, n - 1)
        groups = group_arms(rng, idx[:k], n, 0.6 if shape == "alts" else 0.25)
        for gvals in groups:
            arms.append(Arm(pat_of(gvals), 0))
        arms.append(Arm(("bind", "y"), 0) if shape == "bind" else Arm(("wild",), 0))
    elif shape == "after_wild":
        k = rng.randint(1, n - 1)
        for gvals in group_arms(rng, idx[:k], n, 0.25):
            arms.append(Arm(pat_of(gvals), 0))
        arms.append(Arm(("wild",), 0))
        for gvals in group_arms(rng, rng.sample(idx, rng.randint(1, min(3, n))), n, 0.25):
            arms.append(Arm(pat_of(gvals), 0))
    elif shape == "guards":
        gns = add_guards(rng, fn, 1.0)
        for gvals in group_arms(rng, idx, n, 0.25):
            r = rng.random()
            if r < 0.5:
                arms.append(Arm(pat_of(gvals), 0, rng.choice(gns)))
                if rng.random() < 0.3:
                    arms.append(Arm(pat_of(gvals), 0, rng.choice(gns)))
            else:
                arms.append(Arm(pat_of(gvals), 0))
        if rng.random() < 0.5:
            arms.insert(rng.randint(0, len(arms)), Arm(("wild",), 0, rng.choice(gns)))
        arms.append(Arm(("wild",), 0))
    for i, a in enumerate(arms):
        a.value = i + 1
    return fn


def gen_class(rng, name, T, shape):
    if T in ("Int32", "Int64", "UInt8"):
        return gen_int(rng, name, T, shape)
    if T == "Char":
        return gen_char(rng, name, shape)
    if T == "Bool":
        return gen_bool(rng, name, shape)
    if T == "enum":
        return gen_enum(rng, name, shape)
    if T == "tuple":
        return gen_tuple(rng, name, shape)
    if T == "enum_payload":
        return gen_payload(rng, name, shape)
    raise ValueError(T)


# ---------------------------------------------------------------------------------------
# stretch: tuples of literals, enums with payloads, nested patterns, bindings

def all_wild(p):
    return p[0] == "wild" or (p[0] == "tuple" and all(all_wild(q) for q in p[1]))


def rand_pat(rng, fn, T, depth, wild_p=0.3, bind=None):
    """random pattern of type T (literal / alternative / wildcard / tuple / constructor, nested).
    bind: [name] -> the first Int32 position met becomes a binding of that name (then emptied)."""
    if bind and T == "Int32" and rng.random() < 0.6:
        return ("bind", bind.pop())
    if depth > 0 and rng.random() < wild_p:
        return ("wild",)
    if T == "Bool":
        return ("lit", rng.random() < 0.5)
    if T in ("Int32", "Int64", "UInt8"):
        lo, hi = RANGE[T]
        vs = [clampT(T, rng.choice([0, 1, 2, 3, -1, lo, hi, 7])) for _ in range(rng.randint(1, 2))]
        return mk_pat(sorted(set(vs)))
    if T == "Char":
        return mk_pat(sorted(set(rng.choice([0x61, 0x62, 0, 0x10FFFF]) for _ in range(rng.randint(1, 2)))))
    if T.startswith("("):
        ts = split_top(T[1:-1])
        while True:
            p = ("tuple", [rand_pat(rng, fn, t, depth + 1, wild_p, bind) for t in ts])
            if not all_wild(p):
                return p
    decl = fn.enums[T]
    vi = rng.randrange(len(decl))
    if is_simple_enum(decl):
        if rng.random() < 0.3 and len(decl) > 1:
            return ("alt", [("ctor", T, v, []) for v in sorted(rng.sample(range(len(decl)), 2))])
        return ("ctor", T, vi, [])
    if bind:
        withint = [i for i, (_, fts) in enumerate(decl) if any("Int32" in ft for ft in fts)]
        if withint:
            vi = rng.choice(withint)
    return ("ctor", T, vi, [rand_pat(rng, fn, t, depth + 1, wild_p, bind) for t in decl[vi][1]])


def has_bind(p, name):
    if p[0] == "bind":
        return p[1] == name
    if p[0] in ("alt", "tuple"):
        return any(has_bind(q, name) for q in p[1])
    if p[0] == "ctor":
        return any(has_bind(q, name) for q in p[3])
    return False


TUPLE_SHAPES = ["lits", "alts_inside", "nested", "wild_rows", "bindings"]
PAYLOAD_SHAPES = ["flat", "nested", "option", "bindings", "cover_by_variants"]


def rows(rng, fn, T, shape, n):
    arms = []
    for i in range(n):
        bind = ["y"] if shape == "bindings" and (i == 0 or rng.random() < 0.4) else None
        p = rand_pat(rng, fn, T, 0, 0.15 if shape == "nested" else 0.3, bind)
        tries = 0
        while shape == "bindings" and i == 0 and not has_bind(p, "y") and tries < 50:
            tries += 1
            p = rand_pat(rng, fn, T, 0, 0.3, ["y"])
        v = ("bound", "y") if has_bind(p, "y") else 0
        if shape == "alts_inside" and rng.random() < 0.5 and v == 0:
            p = ("alt", [p, rand_pat(rng, fn, T, 0)])
        arms.append(Arm(p, v))
    return arms


def gen_tuple(rng, name, shape):
    scal = ["Int32", "Bool", "UInt8", "Char", "Int64"]
    if shape == "nested":
        T = "(%s, (%s, %s))" % (rng.choice(scal), rng.choice(["Bool", "Int32"]), rng.choice(scal))
        if rng.random() < 0.4:
            T = "((%s, %s), (Bool, (Int32, %s)))" % (rng.choice(scal), rng.choice(scal), rng.choice(scal))
    elif shape == "bindings":
        T = "(Int32, %s)" % rng.choice(["Bool", "Int32", "(Bool, Int32)"])
    else:
        T = "(" + ", ".join(rng.choice(scal) if i else rng.choice(["Int32", "Bool"]) for i in range(rng.randint(2, 3))) + ")"
    fn = MatchFn(name, T, [], shape)
    fn.arms += rows(rng, fn, T, shape, rng.randint(2, 5))
    if shape == "wild_rows":
        ts = split_top(T[1:-1])
        fn.arms.insert(rng.randint(0, len(fn.arms)), Arm(("tuple", [("wild",)] * len(ts)), 0))
    fn.arms.append(Arm(("wild",), 0))
    for i, a in enumerate(fn.arms):
        if isinstance(a.value, int):
            a.value = i + 1
    if isinstance(fn.arms[-1].value, int):
        fn.arms[-1].value = 0
    return fn


def gen_payload(rng, name, shape):
    en = "P_" + name
    fn = MatchFn(name, en, [], shape)
    scal = ["Int32", "Bool", "UInt8", "Int64", "Char"]
    if shape == "option":
        inner = rng.choice(["Int32", "Bool", "(Int32, Bool)", "UInt8", "Char"])
        en = "Option[%s]" % inner
        fn.T = en
        fn.enums[en] = [("Some", [inner]), ("None", [])]
    else:
        sub = "S_" + name
        fn.enums[sub] = [("A", []), ("B", []), ("C", [])]
        nv = rng.randint(2, 4)
        decl = []
        for i in range(nv):
            k = rng.randint(0, 2)
            fts = [rng.choice(scal + ([sub, sub] if shape == "nested" else [])) for _ in range(k)]
            if shape == "nested" and i == 0:
                fts = ["(Int32, %s)" % sub] + ([rng.choice(scal)] if rng.random() < 0.5 else [])
            if shape == "bindings" and i == 0:
                fts = ["Int32"] + ([rng.choice(scal)] if rng.random() < 0.5 else [])
            decl.append(("W%d" % i, fts))
        if all(len(f) == 0 for _, f in decl):
            decl[0] = ("W0", ["Int32"])
        fn.enums[en] = decl
    decl = fn.enums[fn.T]
    fn.arms += rows(rng, fn, fn.T, shape, rng.randint(2, 5))
    # close the match: one arm per variant with wildcards (no `_`), or a wildcard
    if shape == "cover_by_variants" or rng.random() < 0.4:
        order = list(range(len(decl)))
        rng.shuffle(order)
        for vi in order:
            fn.arms.append(Arm(("ctor", fn.T, vi, [("wild",)] * len(decl[vi][1])), 0))
    else:
        fn.arms.append(Arm(("wild",), 0))
    for i, a in enumerate(fn.arms):
        if isinstance(a.value, int):
            a.value = i + 1
    return fn


def stretch_classes():
    return [("tuple", s) for s in TUPLE_SHAPES] + [("enum_payload", s) for s in PAYLOAD_SHAPES]


# ---------------------------------------------------------------------------------------
# concrete scrutinee values for the validation of the interpreter

def pat_lits(fn, T, p, out):
    k = p[0]
    if k == "lit":
        out.append((T, p[1]))
    elif k == "const":
        out.append((T, fn.consts[p[1]][1]))
    elif k == "alt":
        for q in p[1]:
            pat_lits(fn, T, q, out)


def sample_value(rng, fn, T, hints=()):
    if T == "Bool":
        return rng.random() < 0.5
    if T in RANGE:
        lo, hi = RANGE[T]
        hs = [v for (t, v) in hints if t == T]
        while True:
            r = rng.random()
            if hs and r < 0.6:
                v = clampT(T, rng.choice(hs) + rng.choice([0, 0, 0, 1, -1]))
            elif r < 0.8:
                v = rng.choice([lo, hi, 0, clampT(T, 1), clampT(T, -1)])
            else:
                v = rng.randint(lo, hi)
            if T != "Char" or valid_char(v):
                return v
    if T.startswith("("):
        return tuple(sample_value(rng, fn, t, hints) for t in split_top(T[1:-1]))
    decl = fn.enums[T]
    tag = rng.randrange(len(decl))
    if is_simple_enum(decl):
        return tag
    return (tag, tuple(sample_value(rng, fn, t, hints) for t in decl[tag][1]))


def all_lits(fn, T, p, out):
    k = p[0]
    if k in ("lit", "const", "alt") and (T in RANGE or T == "Bool"):
        pat_lits(fn, T, p, out)
    elif k == "alt":
        for q in p[1]:
            all_lits(fn, T, q, out)
    elif k == "tuple":
        for t, q in zip(split_top(T[1:-1]), p[1]):
            all_lits(fn, t, q, out)
    elif k == "ctor":
        for t, q in zip(fn.enums[p[1]][p[2]][1], p[3]):
            all_lits(fn, t, q, out)


def validation_values(rng, fn, n):
    hints = []
    for a in fn.arms:
        all_lits(fn, fn.T, a.pat, hints)
    vals = []
    if fn.T in RANGE:
        lo, hi = RANGE[fn.T]
        pri = [v for (_, v) in hints]
        rng.shuffle(pri)
        cand = pri[:max(2, n // 2)] + [lo, hi]
        for v in pri[:3]:
            cand += [clampT(fn.T, v - 1), clampT(fn.T, v + 1)]
        for v in cand:
            if v not in vals and (fn.T != "Char" or valid_char(v)):
                vals.append(v)
        vals = vals[:n]
    elif fn.T == "Bool":
        return [True, False]
    elif fn.T in fn.enums and is_simple_enum(fn.enums[fn.T]):
        return list(range(len(fn.enums[fn.T])))
    tries = 0
    while len(vals) < n and tries < 50:
        tries += 1
        v = sample_value(rng, fn, fn.T, hints)
        if v not in vals:
            vals.append(v)
    return vals


# ---------------------------------------------------------------------------------------
# negative programs: a match that misses exactly one value must be rejected by the compiler

def gen_negative(rng, idx):
    name = "n%d" % idx
    kind = rng.choice(["bool", "enum", "int", "char", "enum_guard", "bool_guard"])
    if kind == "bool":
        fn = MatchFn(name, "Bool", [Arm(("lit", rng.random() < 0.5), 1)], "neg_bool")
    elif kind == "bool_guard":
        fn = MatchFn(name, "Bool", [], "neg_bool_guard")
        gn = add_guards(rng, fn, 1.0)[0]
        b = rng.random() < 0.5
        fn.arms += [Arm(("lit", b), 1), Arm(("lit", not b), 2, gn)]
    elif kind in ("enum", "enum_guard"):
        fn = gen_enum(rng, name, "cover")
        fn.shape = "neg_" + kind
        # drop one variant from the arm list
        victim = rng.randrange(len(fn.enums[fn.T]))

        def strip(p):
            if p[0] == "ctor":
                return None if p[2] == victim else p
            qs = [q for q in p[1] if q[2] != victim]
            return None if not qs else (qs[0] if len(qs) == 1 else ("alt", qs))
        if kind == "enum":
            fn.arms[:] = [Arm(q, a.value) for a in fn.arms for q in [strip(a.pat)] if q is not None]
        else:
            gn = add_guards(rng, fn, 1.0)[0]
            new = []
            for a in fn.arms:
                q = strip(a.pat)
                if q is not None:
                    new.append(Arm(q, a.value))
            new.append(Arm(("ctor", fn.T, victim, []), 99, gn))    # guarded arms do not count as covering
            fn.arms[:] = new
        if not fn.arms:
            fn.arms.append(Arm(("ctor", fn.T, (victim + 1) % len(fn.enums[fn.T]), []), 1))
            if len(fn.enums[fn.T]) == 1:
                return gen_negative(rng, idx)
    elif kind == "int":
        fn = gen_int(rng, name, rng.choice(["Int32", "Int64", "UInt8"]), "sparse")
        fn.arms.pop()          # the wildcard
        fn.shape = "neg_int"
    else:
        fn = gen_char(rng, name, "chain")
        fn.arms.pop()
        fn.shape = "neg_char"
    fn.expect_reject = True
    return fn


# ---------------------------------------------------------------------------------------

def generate(seed, count, with_stretch=True):
    """Every (type, shape) class at least once; then round-robin until `count` kernels."""
    cls = classes() + (stretch_classes() if with_stretch else [])
    fns = []
    i = 0
    while len(fns) < max(count, len(cls)):
        T, shape = cls[i % len(cls)]
        rng = random.Random((seed * 1000003 + i) * 7919 + 17)
        fn = gen_class(rng, "m%d" % i, T, shape)
        fns.append(fn)
        i += 1
    return fns
