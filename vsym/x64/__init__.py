"""X64 front end of vsym: machine code emitted by `dora compile -S` -> z3 terms.

modules: build (kernel compilation + real executables), asmfile (.s parser),
decode (llvm-objdump based decoder), sem (instruction semantics + path explorer),
kern (kernel description language shared by C01/C02/C13, reference terms, drivers).
"""
