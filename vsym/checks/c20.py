"""C20 — editor positions match the document (dora-language-server/src/position.rs), MIR-seq.

Symbolically executes the real `utf8_offset_to_utf16_position`, `utf16_position_to_utf8_offset`,
`span_to_range`, `range_to_span` (MIR of the lib target of the native crate, whose crate root *is*
/repo/dora-language-server/src/position.rs) together with the real `compute_line_starts`,
`Span::{new,start,end,len}` (MIR of dora-parser), for EVERY well-formed UTF-8 text of L <= N bytes.

Families of harnesses (one per text length L):
  roundtrip/L   every char-boundary offset o: to_offset(to_position(o)) == o, line = number of line
                breaks ending at or before o, column = UTF-16 units since the line start (astral = 2);
                the line table equals the independent specification (LF, CR, CRLF); every boundary
                pair a <= b: range_to_span(span_to_range(a, b-a)) == (a, b-a); no panic anywhere.
  anypos/L      arbitrary (line, character) u32 pair: result is a char boundary in [0, L], inside the
                line (line start <= r <= next line start / L), == L beyond the last line; no panic.
  anyrange/L    arbitrary ordered Range (start <= end lexicographically): range_to_span does not panic,
                span lies inside the document on char boundaries  (smaller N: two symbolic positions).
"""
import hashlib
import json
import os
import re
import subprocess
import time

import z3

from .. import common
from .. import mirdump
from ..common import Inconclusive, log
from ..mir import parse as P
from ..mir import models as M
from ..mir.interp import Cell, Ctx, Explorer, Int, Panic, Ref, Slice, Tup, VecV
from ..mir.models_text import MODELS_TEXT, TextInterp
from ..mir.runner import run_harnesses

PID = "C20"
FUNCS = ["utf8_offset_to_utf16_position", "utf16_position_to_utf8_offset", "span_to_range", "range_to_span"]
PARSER_FUNCS = ["compute_line_starts", "Span::new", "Span::start", "Span::end", "Span::len"]
MODELS = MODELS_TEXT + M.MODELS


def load():
    pos = P.parse_file(mirdump.native_lib_mir_dump(), common.REPO)
    par = P.parse_file(common.mir_dump("dora-parser"), common.REPO)
    for need in FUNCS:
        if pos.find(need) is None:
            raise Inconclusive("function %s not found in the MIR dump of position.rs" % need)
    for need in PARSER_FUNCS:
        if par.find(need) is None:
            raise Inconclusive("function %s not found in the MIR dump of dora-parser" % need)
    # std iterator adaptors re-implemented as MIR (engines/drivers/src/adaptors.rs): reached through the
    # interpreter's std redirects when the code under test uses filter/map/count/any/all/for_each
    import os
    drv = P.parse_file(common.drivers_mir_dump(), os.path.join(common.WORK, "drivers-src"))
    return pos, par, drv


def interp(progs):
    return TextInterp(progs[0], MODELS, extra_progs=list(progs[1:]))


# ------------------------------------------------------------------------------------------
# independent specification over the symbolic bytes (z3 terms) …

def bv32(n):
    return z3.BitVecVal(n, 32)


class Spec:
    def __init__(self, bs):
        self.b = [x.t for x in bs]
        self.L = len(bs)

    def lead(self, i):
        return z3.Not(z3.And(z3.UGE(self.b[i], 0x80), z3.ULT(self.b[i], 0xC0)))

    def boundary(self, i):
        if i == 0 or i == self.L:
            return z3.BoolVal(True)
        if i > self.L:
            return z3.BoolVal(False)
        return self.lead(i)

    def break_end(self, j):
        """a line break ends exactly before offset j (1 <= j <= L): LF, CRLF (after the LF), or a lone CR"""
        if j < 1 or j > self.L:
            return z3.BoolVal(False)
        p = self.b[j - 1]
        lone_cr = p == 0x0D if j == self.L else z3.And(p == 0x0D, self.b[j] != 0x0A)
        return z3.Or(p == 0x0A, lone_cr)

    def units(self, s, o):
        """UTF-16 code units of text[s..o] (both on boundaries)"""
        t = bv32(0)
        for i in range(s, o):
            t = t + z3.If(self.lead(i), z3.If(z3.UGE(self.b[i], 0xF0), bv32(2), bv32(1)), bv32(0))
        return t

    def line_of(self, o):
        t = bv32(0)
        for j in range(1, o + 1):
            t = t + z3.If(self.break_end(j), bv32(1), bv32(0))
        return t

    def is_line_start_of(self, s, o):
        """s is the start of the line that contains offset o"""
        c = [z3.BoolVal(True) if s == 0 else self.break_end(s)]
        c += [z3.Not(self.break_end(j)) for j in range(s + 1, o + 1)]
        return z3.And(*c)

    def position_ok(self, o, line, col):
        c = [line == self.line_of(o)]
        for s in range(0, o + 1):
            c.append(z3.Implies(self.is_line_start_of(s, o), col == self.units(s, o)))
        return z3.And(*c)

    def table_ok(self, ls):
        """the real line table (concrete length, u32 terms) is [0] + all break ends, increasing"""
        if not ls:
            return z3.BoolVal(False)
        c = [ls[0] == 0]
        c += [z3.ULT(a, b) for a, b in zip(ls, ls[1:])]
        c += [z3.ULE(a, bv32(self.L)) for a in ls]
        for j in range(1, self.L + 1):
            inside = z3.Or(*[a == j for a in ls[1:]]) if len(ls) > 1 else z3.BoolVal(False)
            c.append(inside == self.break_end(j))
        return z3.And(*c)

    def boundary_term(self, r):
        return z3.Or(*[z3.And(r == i, self.boundary(i)) for i in range(self.L + 1)])


# … and the same specification on concrete bytes (for replaying witnesses on the real functions)

def py_spec(text):
    L = len(text)
    lead = lambda i: not (0x80 <= text[i] < 0xC0)
    boundary = [i == 0 or i == L or lead(i) for i in range(L + 1)]
    starts = [0]
    for j in range(1, L + 1):
        p = text[j - 1]
        if p == 0x0A or (p == 0x0D and not (j < L and text[j] == 0x0A)):
            starts.append(j)

    def units(s, o):
        return sum((2 if text[i] >= 0xF0 else 1) for i in range(s, o) if lead(i))

    def position(o):
        k = max(i for i, s in enumerate(starts) if s <= o)
        return k, units(starts[k], o)
    return {"L": L, "boundary": boundary, "starts": starts, "position": position}


# ------------------------------------------------------------------------------------------
# harness bodies

def sym_text(ctx, L):
    bs = [ctx.sym("b%d" % i, "u8") for i in range(L)]
    ctx.assume(M.utf8_valid([b.t for b in bs]))
    return bs


def pos_value(line, ch):
    return Tup((line, ch), name="lsp_types::Position", fnames=["line", "character"])


def range_value(a, b):
    return Tup((a, b), name="lsp_types::Range", fnames=["start", "end"])


def eval_inputs(ctx, inputs, extra=None):
    m = ctx.model(extra)
    w = {}
    if m is None:
        return w
    for k, t in inputs.items():
        v = m.eval(t, model_completion=True)
        w[k] = v.as_long()
    return w


def viol(out, ctx, kind, what, inputs, **extra):
    v = {"kind": kind, "what": what, "witness": eval_inputs(ctx, inputs)}
    v.update(extra)
    out.violations.append(v)


SECOND = {"every": 0}


def require(out, ctx, cond, kind, what, inputs, **extra):
    """verdict query pc ∧ ¬cond by z3; a seeded sample of the queries also goes to cvc5 (second opinion)"""
    ok = out.require(ctx, cond, what, inputs, kind=kind, **extra)
    every = SECOND["every"]
    if every:
        h = int(hashlib.sha1(repr((common.seed(), kind, tuple(ctx.trace), out.checks)).encode()).hexdigest()[:8], 16)
        if h % every == 0:
            s = z3.Solver()
            s.add(*ctx.pc)
            s.add(z3.Not(cond))
            v2 = cvc5_verdict(s, 60, "%s-%08x" % (kind, h))
            out.outcome("second:asked")
            if v2 is None:
                out.outcome("second:no_answer")
            elif (v2 == "unsat") != ok:
                raise Inconclusive("solver disagreement on a verdict query (%s): z3 %s, cvc5 %s" % (kind, "unsat" if ok else "sat", v2))
            else:
                out.outcome("second:agree")
    return ok


def cvc5_verdict(solver, timeout_s, name):
    d = os.path.join(common.WORK, "smt")
    os.makedirs(d, exist_ok=True)
    path = os.path.join(d, "%s-%s-%d.smt2" % (PID, re.sub(r"[^\w.-]", "_", name), os.getpid()))
    with open(path, "w") as f:
        f.write("(set-logic ALL)\n" + solver.to_smt2().replace("(set-logic", "; (set-logic"))
    try:
        p = subprocess.run(["cvc5", "--lang", "smt2", "--tlimit=%d" % (timeout_s * 1000), path], capture_output=True,
                           text=True, timeout=timeout_s + 30)
    except subprocess.TimeoutExpired:
        return None
    o = p.stdout.strip().splitlines()
    if "(error" in p.stdout or "(error" in p.stderr:
        raise Inconclusive("cvc5 error on %s: %s" % (name, (p.stdout + p.stderr)[:300]))
    try:
        os.unlink(path)
    except OSError:
        pass
    if o and o[0] in ("sat", "unsat"):
        return o[0]
    return None


def stats(out, it):
    # Out.merge only carries the `outcomes` counters over from the worker processes: keep the sets there
    for f in it.called:
        out.outcomes.setdefault("fn:" + f, 1)
    for m in it.models_used:
        out.outcomes.setdefault("model:" + m, 1)


def line_table(it, ctx, out, bs, inputs, spec):
    """runs the real compute_line_starts; returns (text slice, line table slice, list of u32 terms) or None"""
    text = Slice(bs, "str")
    try:
        ls = it.call(ctx, "compute_line_starts", [text])
    except Panic as p:
        viol(out, ctx, "line-starts-panic", "compute_line_starts panics: %s" % p.msg, inputs)
        return None
    if not isinstance(ls, VecV):
        raise Inconclusive("compute_line_starts returned %r" % (ls,))
    lst = [e.t for e in ls.elems]
    if not require(out, ctx, spec.table_ok(lst), "line-table", "line table is not [0] + the offsets after every LF / CRLF / lone CR", inputs):
        return None
    return text, Slice(ls.elems, "slice"), lst


def width_witnesses(ctx, out, bs):
    memo = getattr(ctx, "_text_memo", {})
    ws = [memo.get(("w", b.t.get_id())) for b in bs]
    if any(w and w >= 2 for w in ws):
        out.seen("text-with-multibyte-char")
    if any(w == 4 for w in ws):
        out.seen("text-with-astral-char")
    return ws


def make_bodies(progs, lengths, range_lengths):
    bodies = {}

    def roundtrip(L):
        it = interp(progs)

        def body(ctx, out):
            bs = sym_text(ctx, L)
            spec = Spec(bs)
            inputs = {"b%d" % i: b.t for i, b in enumerate(bs)}
            r = line_table(it, ctx, out, bs, inputs, spec)
            stats(out, it)
            if r is None:
                return
            text, lsl, lst = r
            ws = width_witnesses(ctx, out, bs)
            wit = out.witness
            for i in range(L - 1):
                if ("text-with-crlf" not in wit or ("crlf-followed-by-astral-char" not in wit and i + 2 < L and ws[i + 2] == 4)) \
                        and ctx.can(z3.And(bs[i].t == 0x0D, bs[i + 1].t == 0x0A)):
                    out.seen("text-with-crlf")
                    if i + 2 < L and ws[i + 2] == 4:
                        out.seen("crlf-followed-by-astral-char")
                if "astral-char-directly-before-line-break" not in wit and ws[i] == 4 and i + 4 < L \
                        and ctx.can(z3.Or(bs[i + 4].t == 0x0D, bs[i + 4].t == 0x0A)):
                    out.seen("astral-char-directly-before-line-break")
            if "no-trailing-newline" not in wit and L and ctx.can(z3.And(bs[L - 1].t != 0x0A, bs[L - 1].t != 0x0D)):
                out.seen("no-trailing-newline")
            positions = {}
            for o in range(L + 1):
                if not ctx.branch(spec.boundary(o)):
                    continue
                try:
                    p = it.call(ctx, "utf8_offset_to_utf16_position", [text, lsl, Int(o, "u32")])
                except Panic as e:
                    viol(out, ctx, "to-position-panic", "utf8_offset_to_utf16_position panics on a char-boundary offset: %s" % e.msg, inputs, o=o)
                    continue
                line, col = p.fields[0], p.fields[1]
                positions[o] = p
                require(out, ctx, spec.position_ok(o, line.t, col.t), "position-value",
                        "position of a char-boundary offset is not (line breaks before it, UTF-16 units since the line start)", inputs, o=o)
                try:
                    back = it.call(ctx, "utf16_position_to_utf8_offset", [text, lsl, p])
                except Panic as e:
                    viol(out, ctx, "roundtrip-panic", "utf16_position_to_utf8_offset panics on the position of a char-boundary offset: %s" % e.msg, inputs, o=o)
                    continue
                require(out, ctx, back.t == bv32(o), "roundtrip", "offset -> position -> offset does not return the offset", inputs, o=o)
                out.seen("roundtrip-checked")
                if "offset-between-cr-and-lf" not in wit and 0 < o < L and ctx.can(z3.And(bs[o - 1].t == 0x0D, bs[o].t == 0x0A)):
                    out.seen("offset-between-cr-and-lf")
                if "column-differs-from-byte-offset" not in wit and ctx.can(z3.And(col.t != bv32(o), line.t == 0)):
                    out.seen("column-differs-from-byte-offset")
            # spans: every ordered pair of boundaries
            offs = sorted(positions)
            for a in offs:
                for b in offs:
                    if b < a:
                        continue
                    try:
                        sp = it.call(ctx, "Span::new", [Int(a, "u32"), Int(b - a, "u32")])
                        rg = it.call(ctx, "span_to_range", [text, lsl, sp])
                    except Panic as e:
                        viol(out, ctx, "span-to-range-panic", "span_to_range panics on a span between char boundaries: %s" % e.msg, inputs, a=a, b=b)
                        continue
                    st, en = rg.fields[0], rg.fields[1]
                    pa, pb = positions[a], positions[b]
                    same = z3.And(st.fields[0].t == pa.fields[0].t, st.fields[1].t == pa.fields[1].t,
                                  en.fields[0].t == pb.fields[0].t, en.fields[1].t == pb.fields[1].t)
                    require(out, ctx, same, "span-to-range", "span_to_range is not (position(start), position(end))", inputs, a=a, b=b)
                    try:
                        s2 = it.call(ctx, "range_to_span", [text, lsl, rg])
                        s2s = it.call(ctx, "Span::start", [Ref(Cell(s2, "span"))])
                        s2l = it.call(ctx, "Span::len", [Ref(Cell(s2, "span"))])
                    except Panic as e:
                        viol(out, ctx, "range-to-span-panic", "range_to_span panics on the range of a span: %s" % e.msg, inputs, a=a, b=b)
                        continue
                    require(out, ctx, z3.And(s2s.t == bv32(a), s2l.t == bv32(b - a)), "span-roundtrip",
                            "span -> range -> span does not return the span", inputs, a=a, b=b)
                    out.seen("span-roundtrip-checked")
            if len(out.samples) < 3:
                out.samples.append({"harness": "roundtrip/L=%d" % L, "boundaries": offs, "lines": len(lst), "decisions": len(ctx.trace)})
            stats(out, it)
            out.outcome("ok")
        return body

    def check_offset(out, ctx, spec, lst, line, r, kind, inputs, **extra):
        L = spec.L
        n = len(lst)
        c = [z3.ULE(r, bv32(L)), spec.boundary_term(r)]
        for k in range(n):
            end = lst[k + 1] if k + 1 < n else bv32(L)
            c.append(z3.Implies(line == k, z3.And(z3.ULE(lst[k], r), z3.ULE(r, end))))
        c.append(z3.Implies(z3.UGE(line, bv32(n)), r == bv32(L)))
        return require(out, ctx, z3.And(*c), kind,
                       "offset of a position is not a char boundary inside the addressed line (or the document end beyond the last line)",
                       inputs, **extra)

    def anypos(L):
        it = interp(progs)

        def body(ctx, out):
            bs = sym_text(ctx, L)
            spec = Spec(bs)
            line, ch = ctx.sym("line", "u32"), ctx.sym("character", "u32")
            inputs = {"b%d" % i: b.t for i, b in enumerate(bs)}
            tin = dict(inputs)
            inputs["line"], inputs["character"] = line.t, ch.t
            r = line_table(it, ctx, out, bs, tin, spec)
            stats(out, it)
            if r is None:
                return
            text, lsl, lst = r
            width_witnesses(ctx, out, bs)
            try:
                off = it.call(ctx, "utf16_position_to_utf8_offset", [text, lsl, pos_value(line, ch)])
            except Panic as e:
                viol(out, ctx, "to-offset-panic", "utf16_position_to_utf8_offset panics: %s" % e.msg, inputs)
                stats(out, it)
                return
            check_offset(out, ctx, spec, lst, line.t, off.t, "offset-in-document", inputs)
            n = len(lst)
            if ctx.can(z3.UGE(line.t, bv32(n))):
                out.seen("line-beyond-last-line")
                if "line-one-past-last-line" not in out.witness and ctx.can(line.t == bv32(n)):
                    out.seen("line-one-past-last-line")
                if "line-u32-max" not in out.witness and ctx.can(line.t == bv32(0xFFFFFFFF)):
                    out.seen("line-u32-max")
            else:
                cl = [z3.simplify(x) for x in lst]
                if ("column-beyond-line-end" not in out.witness or "column-u32-max" not in out.witness) and all(z3.is_bv_value(x) for x in cl):
                    for k in range(n):
                        s0 = cl[k].as_long()
                        e0 = cl[k + 1].as_long() if k + 1 < n else L
                        # column beyond the UTF-16 length of the whole line (incl. its line break)
                        if ctx.can(z3.And(line.t == k, z3.UGT(ch.t, spec.units(s0, e0)))):
                            out.seen("column-beyond-line-end")
                            if ctx.can(z3.And(line.t == k, ch.t == bv32(0xFFFFFFFF))):
                                out.seen("column-u32-max")
                if "column-zero" not in out.witness and ctx.can(ch.t == 0):
                    out.seen("column-zero")
            if len(out.samples) < 3:
                out.samples.append({"harness": "anypos/L=%d" % L, "lines": n, "decisions": len(ctx.trace)})
            stats(out, it)
            out.outcome("ok")
        return body

    def anyrange(L):
        it = interp(progs)

        def body(ctx, out):
            bs = sym_text(ctx, L)
            spec = Spec(bs)
            l1, c1 = ctx.sym("line1", "u32"), ctx.sym("character1", "u32")
            l2, c2 = ctx.sym("line2", "u32"), ctx.sym("character2", "u32")
            # an LSP Range has start <= end
            ctx.assume(z3.Or(z3.ULT(l1.t, l2.t), z3.And(l1.t == l2.t, z3.ULE(c1.t, c2.t))))
            inputs = {"b%d" % i: b.t for i, b in enumerate(bs)}
            tin = dict(inputs)
            inputs.update({"line1": l1.t, "character1": c1.t, "line2": l2.t, "character2": c2.t})
            r = line_table(it, ctx, out, bs, tin, spec)
            stats(out, it)
            if r is None:
                return
            text, lsl, lst = r
            try:
                sp = it.call(ctx, "range_to_span", [text, lsl, range_value(pos_value(l1, c1), pos_value(l2, c2))])
                st = it.call(ctx, "Span::start", [Ref(Cell(sp, "span"))])
                en = it.call(ctx, "Span::end", [Ref(Cell(sp, "span"))])
            except Panic as e:
                viol(out, ctx, "ordered-range-panic", "range_to_span panics on an ordered range: %s" % e.msg, inputs)
                stats(out, it)
                return
            check_offset(out, ctx, spec, lst, l1.t, st.t, "range-start-in-document", inputs)
            check_offset(out, ctx, spec, lst, l2.t, en.t, "range-end-in-document", inputs)
            require(out, ctx, z3.ULE(st.t, en.t), "range-ordered", "span of an ordered range has end < start", inputs)
            out.seen("ordered-range-converted")
            if ctx.can(z3.And(l1.t != l2.t)):
                out.seen("range-over-several-lines")
            if ctx.can(z3.UGE(l2.t, bv32(len(lst)))):
                out.seen("range-end-beyond-last-line")
            stats(out, it)
            out.outcome("ok")
        return body

    for L in lengths:
        bodies["roundtrip/L=%d" % L] = roundtrip(L)
        bodies["anypos/L=%d" % L] = anypos(L)
    for L in range_lengths:
        bodies["anyrange/L=%d" % L] = anyrange(L)
    return bodies


# ------------------------------------------------------------------------------------------
# translator validation: concrete runs of the encoding vs the natively compiled real functions

EXTRA_TEXTS = ["", "\r", "\n", "\r\n", "a\r\n\U0001F600b\nçx\r", "\U0001F600\r\n", "x\r\r\n\ny"]


def unit_test_inputs():
    """the `let content = "…";` strings and Span::new / Position::new literals of position.rs's own tests"""
    src = open(os.path.join(common.REPO, "dora-language-server/src/position.rs")).read()
    i = src.find("#[cfg(test)]")
    tests = src[i:] if i >= 0 else ""
    texts = []
    for m in re.finditer(r'let content = "((?:[^"\\]|\\.)*)";', tests):
        s = m.group(1).replace("\\r", "\r").replace("\\n", "\n").replace("\\t", "\t").replace('\\"', '"').replace("\\\\", "\\")
        if s not in texts:
            texts.append(s)
    spans = sorted(set((int(a), int(b)) for a, b in re.findall(r"Span::new\((\d+),\s*(\d+)\)", tests)))
    poss = sorted(set((int(a), int(b)) for a, b in re.findall(r"Position::new\((\d+),\s*(\d+)\)", tests)))
    return texts, spans, poss


def conc(v):
    c = v.conc()
    if c is None:
        raise Inconclusive("non-concrete value in a concrete run: %r" % (v,))
    return c


def enc_run(it, fn, args):
    ex = Explorer()
    ctx = Ctx(ex, ())
    try:
        r = it.call(ctx, fn, args)
    except Panic as p:
        return ("panic", p.msg)
    if ex.forks:
        raise Inconclusive("concrete run of %s forked" % fn)
    return ("ok", r)


def validate_translator(progs, nat):
    texts, spans, poss = unit_test_inputs()
    if len(texts) < 3:
        raise Inconclusive("unit-test inputs of position.rs not found (the test module changed shape)")
    it = interp(progs)
    runs = 0
    extra_pos = [(0, 0), (0, 1), (0, 2), (0, 7), (0, 100), (1, 0), (1, 1), (1, 3), (2, 0), (2, 9), (3, 0), (3, 5), (7, 7), (4294967295, 4294967295)]
    for s in texts + EXTRA_TEXTS:
        tb = s.encode("utf-8")
        text = Slice([Int(b, "u8") for b in tb], "str")
        real = common.native(nat, "position", "all", tb.hex())
        st, ls = enc_run(it, "compute_line_starts", [text])
        if st == "panic":
            if not real.get("line_starts", "").startswith("panic"):
                raise Inconclusive("encoding wrong: compute_line_starts(%r) panics in the executor only" % s)
            runs += 1
            continue
        enc_ls = ",".join(str(conc(e)) for e in ls.elems)
        if real.get("line_starts") != enc_ls:
            raise Inconclusive("encoding wrong: compute_line_starts(%r): executor [%s], real function [%s]" % (s, enc_ls, real.get("line_starts")))
        lsl = Slice(ls.elems, "slice")
        sp = py_spec(tb)
        for o in range(len(tb) + 1):
            if not sp["boundary"][o]:
                continue
            st, p = enc_run(it, "utf8_offset_to_utf16_position", [text, lsl, Int(o, "u32")])
            want = real.get("pos_%d" % o, "")
            got = "panic" if st == "panic" else "%d:%d" % (conc(p.fields[0]), conc(p.fields[1]))
            if (got == "panic") != want.startswith("panic") or (got != "panic" and got != want):
                raise Inconclusive("encoding wrong: utf8_offset_to_utf16_position(%r, %d): executor %s, real function %s" % (s, o, got, want))
            runs += 1
            if st == "panic":
                continue
            st, b = enc_run(it, "utf16_position_to_utf8_offset", [text, lsl, p])
            want = real.get("back_%d" % o, "")
            got = "panic" if st == "panic" else str(conc(b))
            if (got == "panic") != want.startswith("panic") or (got != "panic" and got != want):
                raise Inconclusive("encoding wrong: utf16_position_to_utf8_offset(%r, position of %d): executor %s, real function %s" % (s, o, got, want))
            runs += 1
        plist = sorted(set(poss + extra_pos))
        realo = common.native(nat, "position", "offsets", tb.hex(), *["%d:%d" % lc for lc in plist])
        for (l, c) in plist:
            st, b = enc_run(it, "utf16_position_to_utf8_offset", [text, lsl, pos_value(Int(l, "u32"), Int(c, "u32"))])
            want = realo.get("offset_%d_%d" % (l, c), "")
            got = "panic" if st == "panic" else str(conc(b))
            if (got == "panic") != want.startswith("panic") or (got != "panic" and got != want):
                raise Inconclusive("encoding wrong: utf16_position_to_utf8_offset(%r, (%d, %d)): executor %s, real function %s" % (s, l, c, got, want))
            runs += 1
        slist = [(a, n) for (a, n) in spans if a + n <= len(tb)]
        reals = common.native(nat, "position", "spans", tb.hex(), *["%d:%d" % an for an in slist])
        for (a, n) in slist:
            want = {"range": reals.get("range_%d_%d" % (a, n), ""), "span_back": reals.get("span_back_%d_%d" % (a, n), "")}
            st, spv = enc_run(it, "Span::new", [Int(a, "u32"), Int(n, "u32")])
            st, rg = enc_run(it, "span_to_range", [text, lsl, spv])
            if st == "panic":
                got = "panic"
            else:
                got = "%d:%d-%d:%d" % tuple(conc(rg.fields[i].fields[j]) for i in (0, 1) for j in (0, 1))
            w = want.get("range", "")
            if (got == "panic") != w.startswith("panic") or (got != "panic" and got != w):
                raise Inconclusive("encoding wrong: span_to_range(%r, Span(%d, %d)): executor %s, real function %s" % (s, a, n, got, w))
            runs += 1
            if st == "panic":
                continue
            st, s2 = enc_run(it, "range_to_span", [text, lsl, rg])
            if st == "panic":
                got = "panic"
            else:
                cell = Ref(Cell(s2, "span"))
                got = "%d:%d" % (conc(enc_run(it, "Span::start", [cell])[1]), conc(enc_run(it, "Span::len", [cell])[1]))
            w = want.get("span_back", "")
            if (got == "panic") != w.startswith("panic") or (got != "panic" and got != w):
                raise Inconclusive("encoding wrong: range_to_span(%r, range of Span(%d, %d)): executor %s, real function %s" % (s, a, n, got, w))
            runs += 1
    return runs, len(texts)


# ------------------------------------------------------------------------------------------
# replay of solver witnesses on the natively compiled real functions

def witness_text(w):
    ks = sorted((k for k in w if re.fullmatch(r"b\d+", k)), key=lambda s: int(s[1:]))
    return bytes(w[k] for k in ks)


def native_offset_bad(text, sp, real, line, what="offset"):
    """evaluates the anypos assertions on a native result; returns a description or None"""
    v = real.get(what, "")
    if v.startswith("panic") or v == "":
        return "real function panics: " + (v or real.get("panic", "?"))
    r = int(v)
    L, starts = sp["L"], [int(x) for x in real["line_starts"].split(",")]
    if r > L or not sp["boundary"][r]:
        return "offset %d is not a char boundary of the %d byte text" % (r, L)
    if line >= len(starts):
        if r != L:
            return "position beyond the last line gives %d, not the document length %d" % (r, L)
    else:
        end = starts[line + 1] if line + 1 < len(starts) else L
        if not (starts[line] <= r <= end):
            return "offset %d lies outside line %d = [%d, %d]" % (r, line, starts[line], end)
    return None


def replay_witness(nat, v):
    """-> (reproduced, detail): the REAL functions run on the solver's witness and the violated assertion is re-evaluated"""
    w = v["witness"]
    text = witness_text(w)
    try:
        text.decode("utf-8")
    except UnicodeDecodeError:
        return False, {"text_hex": text.hex(), "observed": "witness is not UTF-8 (encoding bug)"}
    sp = py_spec(text)
    kind = v["kind"]
    bad = None
    detail = {"text_hex": text.hex(), "text": text.decode("utf-8"), "kind": kind}
    if kind in ("line-starts-panic", "line-table"):
        real = common.native(nat, "position", "all", text.hex())
        detail["cmd"] = ["position", "all", text.hex()]
        ls = real.get("line_starts", "")
        if ls.startswith("panic"):
            bad = "compute_line_starts panics: " + ls
        elif [int(x) for x in ls.split(",")] != sp["starts"]:
            bad = "compute_line_starts = [%s], line breaks end at %s" % (ls, sp["starts"][1:])
    elif kind in ("to-position-panic", "position-value", "roundtrip-panic", "roundtrip"):
        o = v["o"]
        real = common.native(nat, "position", "all", text.hex())
        detail["cmd"] = ["position", "all", text.hex()]
        detail["offset"] = o
        p, b = real.get("pos_%d" % o, ""), real.get("back_%d" % o, "")
        if not sp["boundary"][o]:
            bad = None
        elif p.startswith("panic") or p == "":
            bad = "utf8_offset_to_utf16_position(%d) panics: %s" % (o, p or real.get("panic"))
        elif p != "%d:%d" % sp["position"](o) and kind == "position-value":
            bad = "position of offset %d is %s, expected %d:%d" % ((o, p) + sp["position"](o))
        elif b.startswith("panic"):
            bad = "utf16_position_to_utf8_offset(position %s of offset %d) panics: %s" % (p, o, b)
        elif b != str(o):
            bad = "offset %d -> position %s -> offset %s" % (o, p, b)
    elif kind in ("span-to-range-panic", "span-to-range", "range-to-span-panic", "span-roundtrip"):
        a, b = v["a"], v["b"]
        real = common.native(nat, "position", "span", text.hex(), a, b - a)
        allr = common.native(nat, "position", "all", text.hex())
        detail["cmd"] = ["position", "span", text.hex(), a, b - a]
        rg, back = real.get("range", ""), real.get("span_back", "")
        if rg.startswith("panic") or rg == "":
            bad = "span_to_range(Span(%d, %d)) panics: %s" % (a, b - a, rg or real.get("panic"))
        elif rg != "%s-%s" % (allr.get("pos_%d" % a), allr.get("pos_%d" % b)):
            bad = "span_to_range(Span(%d, %d)) = %s, positions are %s and %s" % (a, b - a, rg, allr.get("pos_%d" % a), allr.get("pos_%d" % b))
        elif back.startswith("panic"):
            bad = "range_to_span(%s) panics: %s" % (rg, back)
        elif back != "%d:%d" % (a, b - a):
            bad = "Span(%d, %d) -> range %s -> Span(%s)" % (a, b - a, rg, back)
    elif kind in ("to-offset-panic", "offset-in-document"):
        line, ch = w["line"], w["character"]
        real = common.native(nat, "position", "offset", text.hex(), line, ch)
        detail["cmd"] = ["position", "offset", text.hex(), line, ch]
        bad = native_offset_bad(text, sp, real, line)
    elif kind in ("ordered-range-panic", "range-start-in-document", "range-end-in-document", "range-ordered"):
        l1, c1, l2, c2 = w["line1"], w["character1"], w["line2"], w["character2"]
        real = common.native(nat, "position", "range", text.hex(), l1, c1, l2, c2)
        detail["cmd"] = ["position", "range", text.hex(), l1, c1, l2, c2]
        s = real.get("span", "")
        if s.startswith("panic") or s == "":
            bad = "range_to_span panics: " + (s or str(real.get("panic")))
        else:
            st, ln = [int(x) for x in s.split(":")]
            r1 = dict(real, offset=str(st))
            r2 = dict(real, offset=str((st + ln) & 0xFFFFFFFF))
            bad = native_offset_bad(text, sp, r1, l1) or native_offset_bad(text, sp, r2, l2)
    else:
        return False, {"observed": "unknown violation kind " + kind}
    detail["real"] = {k: x for k, x in real.items() if not k.startswith("_")}
    detail["observed"] = bad
    return bad is not None, detail


# ------------------------------------------------------------------------------------------

OBLIGATIONS = {
    "roundtrip": ["line table = [0] + ends of LF/CRLF/lone CR", "position of every boundary offset = (line, UTF-16 column)",
                  "offset -> position -> offset is the identity on boundary offsets", "span_to_range = (position(start), position(end))",
                  "span -> range -> span is the identity on boundary spans", "no panic"],
    "anypos": ["line table = [0] + ends of LF/CRLF/lone CR", "offset of any (line, character) is a boundary inside the line / the document end", "no panic"],
    "anyrange": ["line table = [0] + ends of LF/CRLF/lone CR", "start of the span of an ordered range is inside the document",
                 "end of the span of an ordered range is inside the document", "span start <= span end", "no panic"],
}


def private_native():
    """build_native() + a private copy of the binary: another check may rebuild the shared one while this check runs"""
    import shutil
    built = common.build_native()
    d = os.path.join(common.WORK, "tmp")
    os.makedirs(d, exist_ok=True)
    nat = os.path.join(d, "c20-verif-native-%d" % os.getpid())
    shutil.copy2(built, nat)
    return nat


def main(tier):
    t0 = time.time()
    progs = load()
    nat = private_native()
    try:
        return main2(tier, t0, progs, nat)
    finally:
        try:
            os.unlink(nat)
        except OSError:
            pass


def main2(tier, t0, progs, nat):
    nval, ntexts = validate_translator(progs, nat)
    log("[C20] translator validated on %d concrete calls (%d unit-test texts) in %.1fs" % (nval, ntexts, time.time() - t0))
    if tier == "quick":
        lengths, range_lengths = list(range(0, 6)), [0, 1, 2, 3]
        SECOND["every"] = 300
    else:
        # measured (3 jobs, loaded machine): N=6 27 073 paths / 320 s, N=7 86 847 paths / 1 088 s (49 CPU-minutes)
        jobs = int(os.environ.get("VERIF_JOBS", "16"))
        nmax = int(os.environ.get("VERIF_C20_N", "7" if jobs >= 8 else "6"))
        lengths, range_lengths = list(range(0, nmax + 1)), [0, 1, 2, 3, 4]
        SECOND["every"] = 1000
    bodies = make_bodies(progs, lengths, range_lengths)
    deadline = time.time() + (900 if tier == "quick" else 2400)       # exploration only
    res = run_harnesses(bodies, depth=6, query_timeout_ms=60000, deadline=deadline)

    rep = common.Reporter(PID)
    obligations = discharged = paths = queries = checks = 0
    stime = 0.0
    fns, models_used = set(), set()
    vac, samples, per = {}, [], {}
    second = {"asked": 0, "agree": 0, "no_answer": 0}
    for name, (out, st) in res.items():
        fam = name.split("/")[0]
        obl = OBLIGATIONS[fam]
        obligations += len(obl)
        paths += out.paths
        queries += st["queries"]
        checks += out.checks
        stime += st["solver_time"]
        for k, x in out.outcomes.items():
            if k.startswith("fn:"):
                fns.add(k[3:])
            elif k.startswith("model:"):
                models_used.add(k[6:])
            elif k.startswith("second:"):
                second[k[7:]] += x
        for k in out.witness:
            vac[fam + ":" + k] = True
        samples += out.samples[:1]
        per[name] = {"paths": out.paths, "assertion_queries": out.checks, "solver_queries": st["queries"],
                     "pruned_branches": st["pruned"], "solver_time_s": round(st["solver_time"], 2)}
        if out.paths == 0:
            raise Inconclusive("harness %s explored no path (vacuous)" % name)
        bad = False
        seen = set()
        for v in out.violations:
            key = "%s/%s" % (fam, v["kind"])
            if key in seen:
                continue
            seen.add(key)
            ok, detail = replay_witness(nat, v)
            if not ok:
                raise Inconclusive("counterexample of %s (%s) does not reproduce on the real function: %s" %
                                   (name, v["what"], json.dumps(detail, default=str)[:600]))
            rep.violation(key, v["what"] + " — " + str(detail["observed"]) + " (text bytes %s)" % detail["text_hex"], detail)
            bad = True
        # the line table is asserted first on every path; the other assertions of a harness count as
        # discharged only when the harness has no violation at all (a panic cuts the assertions behind it)
        if not bad:
            discharged += len(obl)
        elif "line-table" not in [x["kind"] for x in out.violations] and "line-starts-panic" not in [x["kind"] for x in out.violations]:
            discharged += 1
        per[name]["violated"] = sorted(set(x["kind"] for x in out.violations))
    need = ["roundtrip:roundtrip-checked", "roundtrip:span-roundtrip-checked", "roundtrip:text-with-multibyte-char",
            "roundtrip:text-with-crlf", "roundtrip:offset-between-cr-and-lf", "roundtrip:column-differs-from-byte-offset",
            "roundtrip:no-trailing-newline",
            "anypos:line-beyond-last-line", "anypos:line-one-past-last-line", "anypos:line-u32-max", "anypos:column-beyond-line-end",
            "anypos:column-u32-max", "anypos:column-zero", "anypos:text-with-multibyte-char",
            "anyrange:ordered-range-converted", "anyrange:range-over-several-lines", "anyrange:range-end-beyond-last-line"]
    if max(lengths) >= 4:
        need += ["roundtrip:text-with-astral-char", "anypos:text-with-astral-char"]
    if max(lengths) >= 5:
        need += ["roundtrip:astral-char-directly-before-line-break"]
    if max(lengths) >= 6:
        need += ["roundtrip:crlf-followed-by-astral-char"]
    if not rep.new and not rep.known_hit:
        for k in need:
            if not vac.get(k):
                raise Inconclusive("vacuity witness missing: " + k)

    cov = {
        "obligations": obligations, "discharged": discharged,
        "obligation_kinds": OBLIGATIONS,
        "checker_cmd": "./check C20 --tier " + tier,
        "trusted_base": ["rustc -Zunpretty=mir dump reflects the compiled functions",
                         "vsym MIR interpreter + std models (validated on %d concrete calls against the natively compiled real functions, on the %d texts of position.rs's own unit tests + %d more)" % (nval, ntexts, len(EXTRA_TEXTS)),
                         "z3 %s; cvc5 second opinion on a seeded sample of the verdict queries (%d asked, %d agree, %d no answer)" % (z3.get_version_string(), second["asked"], second["agree"], second["no_answer"]),
                         "UTF-8 well-formedness formula (Unicode table 3-7)",
                         "independent specification of lines (LF, CRLF, lone CR end a line) and UTF-16 columns in vsym/checks/c20.py"],
        "functions_encoded": sorted(fns),
        "std_models_used": sorted(models_used),
        "bounds": {"text_bytes": lengths, "texts": "every well-formed UTF-8 byte string of these lengths (symbolic bytes)",
                   "offsets": "every char-boundary offset 0..L; every ordered pair of them as a span",
                   "positions": "line and character arbitrary u32 (symbolic)",
                   "range_text_bytes": range_lengths, "ranges": "two arbitrary positions with start <= end"},
        "paths": paths, "queries": queries, "assertion_queries": checks, "solver_time_s": round(stime, 2), "per_harness": per,
        "vacuity_witnesses": sorted(vac), "translator_validation_runs": nval,
        "second_solver": second,
        "samples": samples[:10],
        "outside_the_claim": ["texts longer than the bound (an astral character next to CRLF needs 6 bytes: covered only by the thorough tier)",
                              "document symbols / workspace symbols (document_symbols.rs, workspace_symbols.rs): ranges inside the document, selection ⊆ range, children ⊆ parents",
                              "server entry points (server.rs, goto_def.rs) never panicking: they need the parser and the semantic analysis",
                              "offsets that are not char boundaries or lie beyond the text (the property quantifies over boundary offsets)",
                              "range_to_span on a Range whose end precedes its start (not an LSP Range; the real function panics on `end - start` in debug builds)",
                              "texts of 4 GiB and more (u32 offsets)"],
    }
    assumptions = ["document texts are well-formed UTF-8 (they are &str)", "usize is 64 bit",
                   "Vec/&str/&[u32] modelled as concrete-length sequences of symbolic elements",
                   "lsp_types::Position/Range are plain structs (line, character) / (start, end); Position::new stores its arguments",
                   "slice::binary_search contract: Ok(i) with s[i] == x, else Err(insertion point), on strictly increasing slices (checked at every call)",
                   "a fresh Box allocation is non-null and aligned (vec![0] expansion in compute_line_starts)"]
    try:
        common.write_evidence(PID, tier, "proof", cov, assumptions, time.time() - t0, len(rep.new))
    except Exception:
        if discharged or not rep.new:
            raise
        cov["explanation"] = "no obligation was discharged in this run (violations reported); the proof-level keys are kept for reference"
        common.write_evidence(PID, tier, "other", cov, assumptions, time.time() - t0, len(rep.new))
    log("[C20] %d obligations, %d paths, %d solver queries (%.1fs solver), %d assertion queries, %.1fs" %
        (obligations, paths, queries, stime, checks, time.time() - t0))
    return rep.exit_code()


def replay(path):
    d = json.load(open(path))
    nat = private_native()
    try:
        return replay2(path, d, nat)
    finally:
        os.unlink(nat)


def replay2(path, d, nat):
    r = d["replay"]
    if "cmd" not in r:
        print(json.dumps(r, indent=1))
        return 0
    print(json.dumps(common.native(nat, *r["cmd"]), indent=1))
    v = {"kind": r["kind"], "witness": {}}
    text = bytes.fromhex(r["text_hex"])
    v["witness"].update({"b%d" % i: b for i, b in enumerate(text)})
    cmd = r["cmd"]
    if cmd[1] == "all" and "offset" in r:
        v["o"] = r["offset"]
    elif cmd[1] == "span":
        v["a"], v["b"] = int(cmd[3]), int(cmd[3]) + int(cmd[4])
    elif cmd[1] == "offset":
        v["witness"].update({"line": int(cmd[3]), "character": int(cmd[4])})
    elif cmd[1] == "range":
        v["witness"].update({"line1": int(cmd[3]), "character1": int(cmd[4]), "line2": int(cmd[5]), "character2": int(cmd[6])})
    ok, detail = replay_witness(nat, v)
    print("replay: %s" % (detail.get("observed") or "the real functions satisfy the assertion on this input"))
    if ok:
        print("VIOLATION property=%s replay=%s" % (PID, path))
        return 1
    return 0
