//! `verif-native bc <op> <op> …` — runs a writer script on the REAL dora_bytecode::BytecodeWriter, then the
//! REAL reader (`read` with a recording visitor, and the `BytecodeReader` iterator) over the generated code.
//!   loc | label:<k> | define:<k> | bind:<k> | prefill:<n> | table:<k,k,…>|<kdefault>
//!   emit:<emit_method>:<kind>=<value>,…      kinds: reg idx gid cid u8 char i32 i64 f32 f64 (integers / bit
//!                                             patterns), regs=a/b/c, str=<hex>, label=<k>, idxref=<table no>
//! Output: code=<hex> pool=<n> pool<i>=<entry> visits=<cb a b …|…> insts=<start:opcode|…> reader_end=ok,
//! `stage=` names the phase (write/read) in which a panic of the real code was caught (printed by main).
use dora_bytecode::*;

pub enum Arg {
    Int(u64),
    Regs(Vec<u64>),
    Str(Vec<u8>),
}

impl Arg {
    fn int(&self) -> Result<u64, String> {
        match self { Arg::Int(v) => Ok(*v), _ => Err("integer operand expected".into()) }
    }
    fn regs(&self) -> Result<Vec<Register>, String> {
        match self { Arg::Regs(v) => Ok(v.iter().map(|r| Register(*r as usize)).collect()), _ => Err("register list expected".into()) }
    }
    fn string(&self) -> Result<String, String> {
        match self { Arg::Str(b) => String::from_utf8(b.clone()).map_err(|_| "not utf-8".to_string()), _ => Err("string expected".into()) }
    }
}

include!(concat!(env!("OUT_DIR"), "/bc_gen.rs"));

fn hex_to_bytes(s: &str) -> Vec<u8> {
    (0..s.len() / 2).map(|i| u8::from_str_radix(&s[2 * i..2 * i + 2], 16).unwrap()).collect()
}

fn entry(e: &ConstPoolEntry) -> String {
    match e {
        ConstPoolEntry::String(s) => format!("String:{}", s.as_bytes().iter().map(|b| format!("{:02x}", b)).collect::<String>()),
        ConstPoolEntry::Float32(v) => format!("Float32:{}", v.to_bits()),
        ConstPoolEntry::Float64(v) => format!("Float64:{}", v.to_bits()),
        ConstPoolEntry::Int32(v) => format!("Int32:{}", *v as u32),
        ConstPoolEntry::Int64(v) => format!("Int64:{}", *v as u64),
        ConstPoolEntry::Char(c) => format!("Char:{}", *c as u32),
        ConstPoolEntry::JumpTable { targets, default_target } =>
            format!("JumpTable:{}|{}", targets.iter().map(|t| t.to_string()).collect::<Vec<_>>().join(","), default_target),
        _ => "Other".to_string(),
    }
}

pub fn bc(args: &[String]) {
    let mut w = BytecodeWriter::new();
    let mut labels: Vec<Label> = Vec::new();
    let mut tables: Vec<ConstPoolIdx> = Vec::new();
    println!("stage=write");
    for op in args {
        let parts: Vec<&str> = op.splitn(3, ':').collect();
        match parts[0] {
            "loc" => w.set_location(Location::new(1, 1)),
            "label" => labels.push(w.create_label()),
            "define" => labels.push(w.define_label()),
            "bind" => w.bind_label(labels[parts[1].parse::<usize>().unwrap()]),
            "prefill" => {
                for _ in 0..parts[1].parse::<usize>().unwrap() {
                    w.add_const(ConstPoolEntry::Int32(0));
                }
            }
            "table" => {
                let spec = op.splitn(2, ':').nth(1).unwrap();
                let mut it = spec.split('|');
                let ts: Vec<Label> = it.next().unwrap().split(',').filter(|s| !s.is_empty()).map(|s| labels[s.parse::<usize>().unwrap()]).collect();
                let d = labels[it.next().unwrap().parse::<usize>().unwrap()];
                tables.push(w.add_const_jump_table(ts, d));
            }
            "emit" => {
                let mut a: Vec<Arg> = Vec::new();
                for kv in parts.get(2).unwrap_or(&"").split(',').filter(|s| !s.is_empty()) {
                    let (k, v) = kv.split_at(kv.find('=').unwrap());
                    let v = &v[1..];
                    a.push(match k {
                        "regs" => Arg::Regs(v.split('/').filter(|s| !s.is_empty()).map(|s| s.parse::<u64>().unwrap()).collect()),
                        "str" => Arg::Str(hex_to_bytes(v)),
                        "idxref" => Arg::Int(tables[v.parse::<usize>().unwrap()].0 as u64),
                        _ => Arg::Int(v.parse::<u64>().unwrap()),
                    });
                }
                if let Err(e) = dispatch_emit(&mut w, parts[1], &a, &labels) {
                    if e.starts_with("unknown_emitter") {
                        println!("unknown_emitter={}", parts[1]);
                    } else {
                        println!("bad_script={} ({})", e, op);
                    }
                    return;
                }
            }
            _ => {
                println!("bad_script=unknown op {}", op);
                return;
            }
        }
    }
    let body = w.generate();
    let code = body.code().to_vec();
    println!("code={}", code.iter().map(|b| format!("{:02x}", b)).collect::<String>());
    let pool = body.const_pool_entries();
    println!("pool={}", pool.len());
    for (i, e) in pool.iter().enumerate() {
        let s = entry(e);
        if s != "Int32:0" {
            println!("pool{}={}", i, s);
        }
    }
    println!("stage=read");
    let mut rec = Rec { log: Vec::new() };
    read(&code, &mut rec);
    println!("visits={}", rec.log.join("|"));
    let mut insts = Vec::new();
    for (start, opcode, _inst) in BytecodeReader::new(&code) {
        insts.push(format!("{}:{}", start, u8::from(opcode)));
    }
    println!("insts={}", insts.join("|"));
    println!("reader_end=ok");
    println!("stage=done");
}
