//! verif-native lex <sub> <hex text>  — the REAL dora_parser::lex and the line-table functions of
//! dora-parser/src/lib.rs on a concrete text (C06 / C16: translator validation and replay).
//!
//!   lex tokens <hex>   len=<bytes>
//!                      tokens=<KIND>,<KIND>,…          (Debug names, the trailing EOF included)
//!                      starts=<u32>,<u32>,…
//!                      errors=<Variant>[:<codepoint>]@<start>+<len>;…
//!                      (a panic of lex: panic=<message>)
//!   lex lines <hex>    len=<bytes>
//!                      line_starts=<u32>,…
//!                      lc_<offset>=<line>:<column>     for every offset 0..=len  (compute_line_column)
//!                      line_<k>=<start>:<len>          for every k 0..=number of lines + 1 (get_line_content;
//!                                                      start is the position of the returned slice inside the
//!                                                      text, `-` when the slice does not point into the text)
//!                      (per call: …=panic:<message>)
//!   lex parse <hex>    len=<bytes>, root_length=<u32>, roundtrip=<0|1> (green root .to_string() == text),
//!                      tree=<pre-order dump N:<KIND>:<text_length> / T:<KIND>:<bytes>>, errors=… (lexer + parser), or panic=…
//!   lex tokens-batch|lines-batch|parse-batch <hex> <hex> …   the same for several texts (`-` = empty text), every output
//!                      line prefixed with `<index>.`
use std::panic;

use dora_parser::{compute_line_column, compute_line_starts, get_line_content, lex, ParseError};

fn hex_to_bytes(s: &str) -> Vec<u8> {
    (0..s.len() / 2).map(|i| u8::from_str_radix(&s[2 * i..2 * i + 2], 16).unwrap()).collect()
}

fn msg(e: Box<dyn std::any::Any + Send>) -> String {
    let m = if let Some(s) = e.downcast_ref::<String>() {
        s.clone()
    } else if let Some(s) = e.downcast_ref::<&str>() {
        s.to_string()
    } else {
        "?".to_string()
    };
    m.replace('\n', " ")
}

fn guarded<T, F: FnOnce() -> T + panic::UnwindSafe>(f: F) -> Result<T, String> {
    panic::catch_unwind(f).map_err(msg)
}

fn error_name(e: &ParseError) -> String {
    match e {
        ParseError::UnknownChar(ch) => format!("UnknownChar:{}", *ch as u32),
        other => {
            let d = format!("{:?}", other);
            d.split(|c| c == '(' || c == ' ' || c == '{').next().unwrap_or("?").to_string()
        }
    }
}

pub fn lexcmd(args: &[String]) {
    let sub = args[0].as_str();
    if let Some(inner) = sub.strip_suffix("-batch") {
        // lex tokens-batch|lines-batch <hex> <hex> …: the output of the single form per text, every line prefixed `<index>.`
        // (`-` stands for the empty text); one process for many texts
        for (i, h) in args[1..].iter().enumerate() {
            let h = if h == "-" { "" } else { h.as_str() };
            one(inner, h, &format!("{}.", i));
        }
        return;
    }
    one(sub, args.get(1).map(|s| s.as_str()).unwrap_or(""), "");
}

fn one(sub: &str, hex: &str, pre: &str) {
    macro_rules! println {
        ($($arg:tt)*) => { std::println!("{}{}", pre, format!($($arg)*)) };
    }
    let bytes = hex_to_bytes(hex);
    let text = match String::from_utf8(bytes) {
        Ok(s) => s,
        Err(_) => {
            println!("invalid_utf8=1");
            return;
        }
    };
    println!("len={}", text.len());
    match sub {
        "tokens" => match guarded(|| lex(&text)) {
            Ok(r) => {
                println!("tokens={}", r.tokens.iter().map(|t| format!("{:?}", t)).collect::<Vec<_>>().join(","));
                println!("starts={}", r.starts.iter().map(|x| x.to_string()).collect::<Vec<_>>().join(","));
                println!(
                    "errors={}",
                    r.errors
                        .iter()
                        .map(|e| format!("{}@{}+{}", error_name(&e.error), e.span.start(), e.span.len()))
                        .collect::<Vec<_>>()
                        .join(";")
                );
            }
            Err(m) => println!("panic={}", m),
        },
        "lines" => {
            let ls = match guarded(|| compute_line_starts(&text)) {
                Ok(v) => v,
                Err(m) => {
                    println!("line_starts=panic:{}", m);
                    return;
                }
            };
            println!("line_starts={}", ls.iter().map(|x| x.to_string()).collect::<Vec<_>>().join(","));
            for o in 0..=text.len() {
                match guarded(|| compute_line_column(&ls, o as u32)) {
                    Ok((l, c)) => println!("lc_{}={}:{}", o, l, c),
                    Err(m) => println!("lc_{}=panic:{}", o, m),
                }
            }
            for k in 0..=ls.len() + 1 {
                match guarded(|| {
                    let s = get_line_content(&text, &ls, k);
                    let base = text.as_ptr() as usize;
                    let p = s.as_ptr() as usize;
                    if p >= base && p + s.len() <= base + text.len() && (s.len() > 0 || k < ls.len()) {
                        format!("{}:{}", p - base, s.len())
                    } else {
                        format!("-:{}", s.len())
                    }
                }) {
                    Ok(v) => println!("line_{}={}", k, v),
                    Err(m) => println!("line_{}=panic:{}", k, m),
                }
            }
        }
        "parse" => {
            // the parser's entry on the whole text: errors, length of the green root, pre-order dump of the green tree
            // (N:<KIND>:<text_length> / T:<KIND>:<bytes>), and whether the concatenated token texts reproduce the input
            let shared = std::sync::Arc::new(text.clone());
            match guarded(move || {
                let (file, errors) = dora_parser::Parser::from_shared_string(shared).parse();
                let root = file.root().green().clone();
                let mut dump = Vec::new();
                dump_green(&root, &mut dump);
                (errors, root.text_length(), root.to_string(), dump)
            }) {
                Ok((errors, len, back, dump)) => {
                    println!("root_length={}", len);
                    println!("roundtrip={}", if back == text { 1 } else { 0 });
                    println!("tree={}", dump.join(","));
                    println!(
                        "errors={}",
                        errors
                            .iter()
                            .map(|e| format!("{}@{}+{}", error_name(&e.error), e.span.start(), e.span.len()))
                            .collect::<Vec<_>>()
                            .join(";")
                    );
                }
                Err(m) => println!("panic={}", m),
            }
        }
        _ => println!("unknown_command=1"),
    }
}

fn dump_green(node: &dora_parser::GreenNode, out: &mut Vec<String>) {
    out.push(format!("N:{:?}:{}", node.syntax_kind(), node.text_length()));
    for c in node.children() {
        match c {
            dora_parser::GreenElement::Token(t) => out.push(format!("T:{:?}:{}", t.kind, t.text.len())),
            dora_parser::GreenElement::Node(n) => dump_green(n, out),
        }
    }
}
