#!/usr/bin/env python3
"""replaces the block between the SEED-TABLE markers of DESIGN.md by the current compact seed table"""
import subprocess, re
t = subprocess.run(["python3", "/verif/tools/seed_table_compact.py"], capture_output=True, text=True).stdout
t = "\n".join(l for l in t.splitlines() if l.startswith("|"))
p = "/verif/DESIGN.md"
s = open(p).read()
s = re.sub(r"<!-- SEED-TABLE-BEGIN -->.*?<!-- SEED-TABLE-END -->", lambda m: "<!-- SEED-TABLE-BEGIN -->\n" + t + "\n<!-- SEED-TABLE-END -->", s, flags=re.S)
open(p, "w").write(s)
print(t.count("\n") - 1, "seeds")
