//! Native replay / oracle-validation driver.
//!   arm64-replay replay <method> <kind> <arg>...     one call of the real assembler, JSON report
//!   arm64-replay tuples                               all boundary tuples of the spec, one JSON per line
//!   arm64-replay decode <word>...                     reference decoder on raw words (decimal or 0x..)
use kani_arm64::decoder::decode_opt as decode;
use kani_arm64::dispatch::{dispatch, tuples};
use kani_arm64::json::opt_insn_json;

fn parse(s: &str) -> i128 {
    let (neg, t) = if let Some(r) = s.strip_prefix('-') { (true, r) } else { (false, s) };
    let v = if let Some(h) = t.strip_prefix("0x") { i128::from_str_radix(h, 16).unwrap() } else { t.parse::<i128>().unwrap() };
    if neg { -v } else { v }
}

fn main() {
    std::panic::set_hook(Box::new(|_| {})); // refusals are reported in the JSON, not on stderr
    let a: Vec<String> = std::env::args().collect();
    if a.len() < 2 {
        eprintln!("usage: replay|tuples|decode");
        std::process::exit(2);
    }
    match a[1].as_str() {
        "replay" => {
            let args: Vec<i128> = a[4..].iter().map(|s| parse(s)).collect();
            match dispatch(&a[2], &a[3], &args) {
                Some(r) => println!("{}", r.to_json()),
                None => {
                    println!("{{\"error\":\"unknown method/kind or wrong arity\"}}");
                    std::process::exit(3);
                }
            }
        }
        "tuples" => {
            for (m, args) in tuples() {
                match dispatch(m, "legal", &args) {
                    Some(r) => println!("{}", r.to_json()),
                    None => println!("{{\"error\":\"bad tuple\",\"method\":\"{}\"}}", m),
                }
            }
        }
        "decode" => {
            for s in &a[2..] {
                let w = parse(s) as u32;
                println!("{{\"word\":{},\"decoded\":{}}}", w, opt_insn_json(&decode(w)));
            }
        }
        "decode-stdin" => {
            use std::io::BufRead;
            for l in std::io::stdin().lock().lines() {
                let l = l.unwrap();
                let l = l.trim();
                if l.is_empty() { continue; }
                let w = parse(l) as u32;
                println!("{{\"word\":{},\"decoded\":{}}}", w, opt_insn_json(&decode(w)));
            }
        }
        _ => std::process::exit(2),
    }
}
