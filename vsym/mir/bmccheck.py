"""Shared query set and verdict logic of the bmc checks (C12, C04, C09)."""
import re
import time

import z3

from ..common import Inconclusive, log
from . import bmc as B

SAFETY = ("panic-or-ghost-violation", "deadlock")


def standard_queries(U, extra_bad=(), witnesses=()):
    K = U.K
    qs = [
        ("panic-or-ghost-violation", U.fired(lambda e: e.panic is not None and not e.panic.startswith("RANGE")), "unsat"),
        ("range-of-narrowed-variables", U.fired(lambda e: e.panic is not None and e.panic.startswith("RANGE")), "unsat"),
        # (a thread that panicked stops for good; what the others do afterwards is not a deadlock of the protocol)
        ("deadlock", z3.And(z3.Or(*[z3.And(U.stuck(k), z3.Not(U.all_done(k))) for k in range(K)]),
                            z3.Not(U.fired(lambda e: e.panic is not None))), "unsat"),
        ("unfinished-at-K", z3.And(z3.Not(U.all_done(K)), *[z3.Not(U.stuck(k)) for k in range(K)]), "unsat"),
    ]
    qs += [(n, f, "unsat") for n, f in extra_bad]
    qs += [(n, f, "sat") for n, f in witnesses]
    return qs


def decide_all(U, qs, tmo, tag, jobs, pid, label, final_checks=None):
    """final_checks: name -> callable(system, done) evaluated on the concrete final state of the replayed trace"""
    res = U.decide_many([(n, f) for n, f, _ in qs], tmo, tag, jobs)
    out = {}
    for n, f, expect in qs:
        v, tr, st = res[n]
        o = {"verdict": v, "expected": expect}
        o.update(st)
        if v == "sat" and expect == "unsat":
            o["trace"] = tr
            if n not in ("unfinished-at-K", "range-of-narrowed-variables"):
                # replay: the trace is re-executed directly on the MIR, concretely, thread by thread
                kind = "panic" if n == "panic-or-ghost-violation" else ("deadlock" if n == "deadlock" else (final_checks or {}).get(n))
                if kind is not None:
                    try:
                        ok, lg = U.s.replay(tr, kind)
                    except Inconclusive as e:
                        ok, lg = False, ["replay inconclusive: %s" % e]
                    o["replayed"] = ok
                    o["replay_log"] = lg[-40:]
        out[n] = o
        log("   [%s %s K=%d] %s: %s (cnf %.1fs, sat %.1fs)" % (pid, label, U.K, n, v, st.get("cnf_s", 0), st.get("sat_s", 0)))
    return out


def panic_class(tr):
    for s in tr or []:
        if s.get("panic"):
            return re.sub(r"\s+", " ", s["panic"])[:90]
    return "no-panic"


def judge(results, rep, key_prefix, name_of):
    """results: list of dicts with 'queries', 'K'.  The FIRST result is the core configuration: all of its
    queries must be decided and its 'unfinished-at-K' must be unsat (complete for its workload).  Other
    configurations may stay bounded (bug hunting up to K) or undecided: listed in the evidence.
    Returns (number of queries, undecided list, bounded list)."""
    nq, undecided, bounded = 0, [], []
    problems = []

    for idx0, r in enumerate(results):
        nm = name_of(r)
        # core configurations must be decided completely; the first one always is core
        idx = 0 if (idx0 == 0 or (r.get("cfg") or {}).get("core")) else 1
        for name, q in r["queries"].items():
            nq += 1
            v, exp = q["verdict"], q["expected"]
            if v == "unknown":
                undecided.append("%s K=%d %s" % (nm, r["K"], name))
                if idx == 0:
                    problems.append("core configuration %s: query %s undecided within the time cap" % (nm, name))
            elif exp == "sat" and v == "unsat":
                if idx == 0 or name != "witness-all-finish":
                    problems.append("vacuity witness %s is unsat for %s K=%d" % (name, nm, r["K"]))
            elif name == "range-of-narrowed-variables" and v == "sat":
                problems.append("a narrowed state variable can exceed its width (%s): %s" % (nm, panic_class(q.get("trace"))))
            elif name == "unfinished-at-K" and v == "sat":
                if idx == 0:
                    problems.append("core configuration %s: executions longer than K=%d exist — bound too small" % (nm, r["K"]))
                bounded.append("%s: executions longer than K=%d exist; safety is decided up to K only (bug hunting)" % (nm, r["K"]))
            elif exp == "unsat" and v == "sat":
                tr = q.get("trace") or []
                if q.get("replayed") is False:
                    problems.append("counterexample of %s (%s) does not reproduce when the trace is re-executed on the MIR: %s"
                                       % (name, nm, "; ".join((q.get("replay_log") or [])[-3:])))
                    continue
                what = "%s in configuration %s: %s" % (name, nm, panic_class(tr))
                rep.violation("%s/%s/%s" % (key_prefix, name, panic_class(tr)), what,
                              {"config": r.get("cfg"), "K": r["K"], "trace": tr, "replay_log": q.get("replay_log")})
                r["_replayed"] = r.get("_replayed", 0) + (1 if q.get("replayed") else 0)
    if problems and not rep.new:
        raise Inconclusive("; ".join(problems[:4]))
    return nq, undecided, bounded + ["(inconclusive) " + p for p in problems]
