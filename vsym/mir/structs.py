"""Field order of structs and discriminants of enums, read from the Rust sources of the working
tree (MIR field projections are positional: `((*_1).3: Threads)`)."""
import os
import re

from ..common import Inconclusive


def _strip_comments(src):
    src = re.sub(r"/\*.*?\*/", "", src, flags=re.S)
    src = re.sub(r"//[^\n]*", "", src)
    return src


def _body(src, start):
    """src[start] == '{' -> text between the matching braces"""
    d = 0
    for i in range(start, len(src)):
        if src[i] == "{":
            d += 1
        elif src[i] == "}":
            d -= 1
            if d == 0:
                return src[start + 1:i]
    raise Inconclusive("unbalanced braces")


def struct_fields(path, name):
    src = _strip_comments(open(path).read())
    m = re.search(r"\bstruct\s+%s\b[^{;(]*\{" % re.escape(name), src)
    if not m:
        raise Inconclusive("struct %s not found in %s" % (name, path))
    body = _body(src, m.end() - 1)
    fields = []
    depth = 0
    cur = []
    for ch in body:
        if ch in "<([{":
            depth += 1
        elif ch in ">)]}":
            depth -= 1
        if ch == "," and depth == 0:
            fields.append("".join(cur)); cur = []
        else:
            cur.append(ch)
    if "".join(cur).strip():
        fields.append("".join(cur))
    out = []
    for f in fields:
        f = re.sub(r"#\[[^\]]*\]", "", f).strip()
        mm = re.match(r"^(?:pub(?:\([^)]*\))?\s+)?([A-Za-z_][A-Za-z0-9_]*)\s*:", f)
        if mm:
            out.append(mm.group(1))
    return out


def enum_discriminants(path, name):
    src = _strip_comments(open(path).read())
    m = re.search(r"\benum\s+%s\b[^{;]*\{" % re.escape(name), src)
    if not m:
        raise Inconclusive("enum %s not found in %s" % (name, path))
    body = _body(src, m.end() - 1)
    out, nxt = {}, 0
    depth, cur, parts = 0, [], []
    for ch in body:
        if ch in "<([{":
            depth += 1
        elif ch in ">)]}":
            depth -= 1
        if ch == "," and depth == 0:
            parts.append("".join(cur)); cur = []
        else:
            cur.append(ch)
    if "".join(cur).strip():
        parts.append("".join(cur))
    for p in parts:
        p = re.sub(r"#\[[^\]]*\]", "", p).strip()
        mm = re.match(r"^([A-Za-z_][A-Za-z0-9_]*)\s*(?:\(.*\)|\{.*\})?\s*(?:=\s*(-?\d+))?$", p, flags=re.S)
        if not mm:
            continue
        if mm.group(2) is not None:
            nxt = int(mm.group(2))
        out[mm.group(1)] = nxt
        nxt += 1
    return out


class Layouts:
    def __init__(self, repo):
        self.repo = repo
        self.cache = {}

    def fields(self, relpath, name):
        k = (relpath, name)
        if k not in self.cache:
            self.cache[k] = struct_fields(os.path.join(self.repo, relpath), name)
        return self.cache[k]

    def make(self, relpath, name, **vals):
        """Tup with the struct's declared field order; unspecified fields are uninitialised (None)"""
        from .interp import Tup
        fs = self.fields(relpath, name)
        for k in vals:
            if k not in fs:
                raise Inconclusive("struct %s has no field %s (fields: %s)" % (name, k, fs))
        return Tup([vals.get(f) for f in fs], name=name, fnames=fs)

    def index(self, relpath, name, field):
        return self.fields(relpath, name).index(field)
