"""Models and interpreter additions for check C17 (dora-format), in addition to models.py, models_text.py, models_lex.py and
models_parse.py.  Own list MODELS_FMT — pass `MODELS_FMT + MODELS_PARSE + MODELS_LEX + MODELS_TEXT + models.MODELS`.

Contracts:

* `SmolStr` is its byte sequence (`VecV(kind="smolstr")`, as built by the `SmolStr::new` model of models_parse.py):
  `SmolStr::as_str`, `<SmolStr as Deref>::deref` give the bytes as `&str`.
* `<Box<T> as AsRef<T>>::as_ref`: the reference to the boxed cell (boxes are `Opaque("box", Ref)` as in models_parse.py).
* `<uN as Add<&uN>>::add` (core's forwarding impl, `#[rustc_inherit_overflow_checks]`): addition that panics with
  "attempt to add with overflow" — the MIR is dumped with overflow checks on, and the natively compiled replay crate is a
  debug build, so both sides agree.
* `Range<u32>`: `into_iter` is the identity, `next` forks on `start < end`.
* `<Chars as Iterator>::count`: the number of bytes that are not UTF-8 continuation bytes (exact for well-formed UTF-8; all
  strings reaching it in this check are concrete).
* `Vec::<T>::clone` of a vector of `Copy` tuples: the same immutable value.
* `FmtInterp`: alignment/size of the tuple type `(u32, Mode, &Doc)` that the `vec![…]` expansion asserts on.
"""
import re

import z3

from ..common import Inconclusive
from .interp import Adt, Cell, Int, Opaque, Panic, Ref, Slice, Tup, UNIT, VecV, get_path
from .models import NONE, deref, elems_of, some, usize, write_ref
from . import models_text as MT

MODELS_FMT = []


def model(pat):
    def deco(fn):
        MODELS_FMT.append((re.compile(pat), fn))
        return fn
    return deco


@model(r"(smol_str::)?SmolStr::as_str|<(smol_str::)?SmolStr as (std::ops::|core::ops::)?Deref>::deref")
def m_smolstr_as_str(it, ctx, callee, args):
    return Slice(elems_of(args[0]), "str")


@model(r"<Box<.*> as (std::convert::|core::convert::)?AsRef<.*>>::as_ref")
def m_box_as_ref(it, ctx, callee, args):
    b = deref(args[0])
    if not (isinstance(b, Opaque) and b.what == "box"):
        raise Inconclusive("Box::as_ref of %r" % (b,))
    return b.payload


@model(r"<(u8|u16|u32|u64|usize) as (std::ops::|core::ops::)?Add<&(u8|u16|u32|u64|usize)>>::add")
def m_add_ref(it, ctx, callee, args):
    a, b = args[0], deref(args[1])
    if not (isinstance(a, Int) and isinstance(b, Int) and a.w == b.w):
        raise Inconclusive("add of %r and %r" % (a, b))
    if ctx.branch(z3.Not(z3.BVAddNoOverflow(a.t, b.t, False))):
        raise Panic("panic: attempt to add with overflow", "<%s as Add<&%s>>::add" % (a.ty, a.ty))
    return Int(a.t + b.t, a.ty)


@model(r"<(std::ops::|core::ops::)?Range<u(8|16|32|64)> as IntoIterator>::into_iter")
def m_range_into_iter(it, ctx, callee, args):
    return args[0]


@model(r"<(std::ops::|core::ops::)?Range<u(8|16|32|64)> as Iterator>::next")
def m_range_next(it, ctx, callee, args):
    r = deref(args[0])
    a, b = r.fields
    if ctx.branch(z3.ULT(a.t, b.t)):
        write_ref(args[0], Tup((Int(a.t + 1, a.ty), b), name=r.name, fnames=r.fnames))
        return some(a)
    return NONE


@model(r"<(std::str::|core::str::)?Chars as Iterator>::count")
def m_chars_count(it, ctx, callee, args):
    st = args[0]
    if not (isinstance(st, Tup) and st.name == "Iter:chars"):
        raise Inconclusive("Chars state %r" % (st,))
    seq, pos = st.fields
    n = z3.BitVecVal(0, 64)
    for e in seq.elems[pos.conc():]:
        n = n + z3.If(z3.And(z3.UGE(e.t, 0x80), z3.ULT(e.t, 0xC0)), z3.BitVecVal(0, 64), z3.BitVecVal(1, 64))
    return Int(z3.simplify(n), "usize")


_ALIGN = {"render::Mode": (1, 1), "Mode": (1, 1)}


def size_align(ty):
    ty = ty.strip()
    try:
        return MT.size_align(ty)
    except Inconclusive:
        pass
    if ty.startswith("&") or ty.startswith("*const") or ty.startswith("*mut") or ty.startswith("std::boxed::Box<"):
        return 8, 8
    if ty in _ALIGN:
        return _ALIGN[ty]
    m = re.fullmatch(r"(?:std::mem::|core::mem::)?MaybeUninit<(.+)>", ty)
    if m:
        return size_align(m.group(1))
    m = re.fullmatch(r"\[(.+); (\d+)\]", ty)
    if m:
        s, a = size_align(m.group(1))
        return s * int(m.group(2)), a
    if ty.startswith("(") and ty.endswith(")"):
        from .parse import split_top
        parts = [size_align(p) for p in split_top(ty[1:-1]) if p.strip()]
        al = max([a for _, a in parts] or [1])
        # rustc reorders tuple fields by decreasing alignment: no inner padding beyond the final round-up
        sz = sum(s for s, _ in parts)
        sz = (sz + al - 1) // al * al
        return sz, al
    raise Inconclusive("size/alignment of type " + ty)


class FmtInterp(MT.TextInterp):
    def const(self, ctx, fr, text, ty_hint=None):
        t = text.strip()
        m = re.fullmatch(r"<(.+) as (?:std|core)::mem::SizedTypeProperties>::(SIZE|ALIGN)", t)
        if m:
            s, a = size_align(m.group(1))
            return Int(s if m.group(2) == "SIZE" else a, "usize")
        return MT.TextInterp.const(self, ctx, fr, text, ty_hint)
