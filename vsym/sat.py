"""Deciding large QF_BV unrollings: z3 tactics bit-blast to CNF, kissat decides.
(z3's own SAT core needed minutes where kissat needs seconds on the bmc unrollings.)"""
import os
import subprocess
import tempfile
import time

import z3

from .common import Inconclusive, WORK, ensure_dirs

TACTIC = ("simplify", "propagate-values", "bit-blast", "tseitin-cnf")


def decide(constraints, timeout_s, want_names=None, tag="q"):
    """-> (verdict 'sat'|'unsat'|'unknown', set of true Boolean atom names matching want_names(name), stats)"""
    t0 = time.time()
    g = z3.Goal()
    g.add(*constraints)
    r = z3.Then(*TACTIC)(g)
    if len(r) != 1:
        raise Inconclusive("bit-blasting produced %d subgoals" % len(r))
    sub = r[0]
    if sub.inconsistent():
        return "unsat", set(), {"cnf_s": round(time.time() - t0, 2), "sat_s": 0.0, "vars": 0, "clauses": 0, "solver": "z3-preprocessing"}
    d = sub.dimacs(include_names=True)
    head = d.split("\n", 1)[0].split()
    nv, nc = (int(head[2]), int(head[3])) if len(head) >= 4 else (0, 0)
    if nc == 0:
        return "sat", set(), {"cnf_s": round(time.time() - t0, 2), "sat_s": 0.0, "vars": nv, "clauses": 0, "solver": "z3-preprocessing"}
    ensure_dirs()
    d_dir = os.path.join(WORK, "cnf")
    os.makedirs(d_dir, exist_ok=True)
    fd, path = tempfile.mkstemp(prefix=tag + "-", suffix=".cnf", dir=d_dir)
    names = {}
    with os.fdopen(fd, "w") as f:
        for ln in d.split("\n"):
            if ln.startswith("c "):
                p = ln.split(" ", 2)
                if len(p) == 3 and (want_names is None or want_names(p[2])):
                    names[int(p[1])] = p[2]
            else:
                f.write(ln + "\n")
    del d
    t1 = time.time()
    try:
        p = subprocess.run(["kissat", "-q", "--time=%d" % max(1, int(timeout_s)), path], capture_output=True, text=True,
                           timeout=timeout_s + 60)
    except subprocess.TimeoutExpired:
        os.unlink(path)
        return "unknown", set(), {"cnf_s": round(t1 - t0, 2), "sat_s": round(time.time() - t1, 2), "vars": nv, "clauses": nc, "solver": "kissat"}
    os.unlink(path)
    st = {"cnf_s": round(t1 - t0, 2), "sat_s": round(time.time() - t1, 2), "vars": nv, "clauses": nc, "solver": "kissat"}
    out = p.stdout
    if "s UNSATISFIABLE" in out:
        return "unsat", set(), st
    if "s SATISFIABLE" in out:
        true = set()
        for ln in out.split("\n"):
            if ln.startswith("v "):
                for tok in ln[2:].split():
                    v = int(tok)
                    if v > 0 and v in names:
                        true.add(names[v])
        return "sat", true, st
    if p.returncode not in (0, 10, 20):
        raise Inconclusive("kissat failed (%d): %s" % (p.returncode, (p.stdout + p.stderr)[-300:]))
    return "unknown", set(), st


def second_opinion(constraints, timeout_s):
    """z3's own bit-blasting SAT pipeline on the same constraints -> 'sat'|'unsat'|'unknown'"""
    sv = z3.Then("simplify", "propagate-values", "solve-eqs", "bit-blast", "sat").solver()
    sv.set("timeout", int(timeout_s * 1000))
    sv.add(*constraints)
    return str(sv.check())


def decide_many(constraints, queries, timeout_s, want_names=None, tag="q", jobs=4):
    """One bit-blasting for several queries: each query formula is bound to a selector atom; the CNF is
    produced once and kissat runs once per query with the selector asserted as a unit clause.
    queries: list of (name, formula).  -> dict name -> (verdict, true atom names, stats)"""
    from concurrent.futures import ThreadPoolExecutor
    t0 = time.time()
    g = z3.Goal()
    g.add(*constraints)
    sels = {}
    for i, (name, f) in enumerate(queries):
        s = z3.Bool("qsel!%d" % i)
        sels[name] = "qsel!%d" % i
        g.add(s == f)
    r = z3.Then(*TACTIC)(g)
    if len(r) != 1:
        raise Inconclusive("bit-blasting produced %d subgoals" % len(r))
    sub = r[0]
    if sub.inconsistent():
        raise Inconclusive("the unrolling itself is inconsistent")
    d = sub.dimacs(include_names=True)
    names, sel_var = {}, {}
    body = []
    nv = nc = 0
    for ln in d.split("\n"):
        if ln.startswith("c "):
            p = ln.split(" ", 2)
            if len(p) == 3:
                if p[2].startswith("qsel!"):
                    sel_var[p[2]] = int(p[1])
                elif want_names is None or want_names(p[2]):
                    names[int(p[1])] = p[2]
        elif ln.startswith("p cnf"):
            h = ln.split()
            nv, nc = int(h[2]), int(h[3])
        elif ln.strip():
            body.append(ln)
    del d
    cnf_s = time.time() - t0
    ensure_dirs()
    d_dir = os.path.join(WORK, "cnf")
    os.makedirs(d_dir, exist_ok=True)
    base_txt = "\n".join(body) + "\n"

    def run(q):
        name = q[0]
        v = sel_var.get(sels[name])
        st = {"cnf_s": round(cnf_s, 2), "vars": nv, "clauses": nc + 1, "solver": "kissat"}
        if v is None:
            # the selector was eliminated by preprocessing: decide this query on its own
            return name, None
        fd, path = tempfile.mkstemp(prefix="%s-%s-" % (tag, sels[name].replace("!", "")), suffix=".cnf", dir=d_dir)
        with os.fdopen(fd, "w") as f:
            f.write("p cnf %d %d\n" % (nv, nc + 1))
            f.write(base_txt)
            f.write("%d 0\n" % v)
        t1 = time.time()
        try:
            p = subprocess.run(["kissat", "-q", "--time=%d" % max(1, int(timeout_s)), path], capture_output=True, text=True,
                               timeout=timeout_s + 60)
            out = p.stdout
        except subprocess.TimeoutExpired:
            out = ""
        finally:
            try:
                os.unlink(path)
            except OSError:
                pass
        st["sat_s"] = round(time.time() - t1, 2)
        if "s UNSATISFIABLE" in out:
            return name, ("unsat", set(), st)
        if "s SATISFIABLE" in out:
            true = set()
            for ln in out.split("\n"):
                if ln.startswith("v "):
                    for tok in ln[2:].split():
                        x = int(tok)
                        if x > 0 and x in names:
                            true.add(names[x])
            return name, ("sat", true, st)
        return name, ("unknown", set(), st)
    res = {}
    with ThreadPoolExecutor(max_workers=max(1, jobs)) as ex:
        for name, r2 in ex.map(run, queries):
            res[name] = r2
    for name, f in queries:
        if res[name] is None:
            res[name] = decide(list(constraints) + [f], timeout_s, want_names, tag)
    return res
