//! Iterator adaptors of the standard library, re-implemented as plain loops so that they exist
//! as MIR: calls to the std adaptors in repository code are redirected here (vsym/mir/interp.py
//! `std_redirects`).  Closures passed to them are then called at MIR level, so visible
//! operations inside a closure (an atomic load in `|t| t.is_running()`) end a bmc edge properly.
#![allow(unused)]

pub struct DrvFilter<I, F> { pub it: I, pub f: F }
pub struct DrvMap<I, F> { pub it: I, pub f: F }

pub fn drv_iter_filter<I, F>(it: I, f: F) -> DrvFilter<I, F> { DrvFilter { it, f } }
pub fn drv_iter_map<I, F>(it: I, f: F) -> DrvMap<I, F> { DrvMap { it, f } }

pub fn drv_filter_count<I: Iterator, F: FnMut(&I::Item) -> bool>(mut fl: DrvFilter<I, F>) -> usize {
    let mut n = 0usize;
    loop {
        match fl.it.next() {
            Some(x) => {
                if (fl.f)(&x) {
                    n += 1;
                }
            }
            None => break,
        }
    }
    n
}

pub fn drv_filter_next<I: Iterator, F: FnMut(&I::Item) -> bool>(fl: &mut DrvFilter<I, F>) -> Option<I::Item> {
    loop {
        match fl.it.next() {
            Some(x) => {
                if (fl.f)(&x) {
                    return Some(x);
                }
            }
            None => return None,
        }
    }
}

pub fn drv_map_next<I: Iterator, B, F: FnMut(I::Item) -> B>(m: &mut DrvMap<I, F>) -> Option<B> {
    match m.it.next() {
        Some(x) => Some((m.f)(x)),
        None => None,
    }
}

pub fn drv_iter_count<I: Iterator>(mut it: I) -> usize {
    let mut n = 0usize;
    loop {
        match it.next() {
            Some(_) => n += 1,
            None => break,
        }
    }
    n
}

pub fn drv_iter_any<I: Iterator, F: FnMut(I::Item) -> bool>(it: &mut I, mut f: F) -> bool {
    loop {
        match it.next() {
            Some(x) => {
                if f(x) {
                    return true;
                }
            }
            None => return false,
        }
    }
}

pub fn drv_iter_all<I: Iterator, F: FnMut(I::Item) -> bool>(it: &mut I, mut f: F) -> bool {
    loop {
        match it.next() {
            Some(x) => {
                if !f(x) {
                    return false;
                }
            }
            None => return true,
        }
    }
}

pub fn drv_iter_for_each<I: Iterator, F: FnMut(I::Item)>(mut it: I, mut f: F) {
    loop {
        match it.next() {
            Some(x) => f(x),
            None => break,
        }
    }
}

// ---- second batch: consumers and adaptors that repository code may reach for -------------------

pub struct DrvEnumerate<I> { pub it: I, pub n: usize }
pub struct DrvTakeWhile<I, F> { pub it: I, pub f: F, pub done: bool }
pub struct DrvSkip<I> { pub it: I, pub n: usize }
pub struct DrvTake<I> { pub it: I, pub n: usize }
pub struct DrvZip<A, B> { pub a: A, pub b: B }
pub struct DrvChain<A, B> { pub a: A, pub b: B, pub first_done: bool }

pub fn drv_iter_enumerate<I>(it: I) -> DrvEnumerate<I> { DrvEnumerate { it, n: 0 } }
pub fn drv_iter_take_while<I, F>(it: I, f: F) -> DrvTakeWhile<I, F> { DrvTakeWhile { it, f, done: false } }
pub fn drv_iter_skip<I>(it: I, n: usize) -> DrvSkip<I> { DrvSkip { it, n } }
pub fn drv_iter_take<I>(it: I, n: usize) -> DrvTake<I> { DrvTake { it, n } }
pub fn drv_iter_zip<A, B>(a: A, b: B) -> DrvZip<A, B> { DrvZip { a, b } }
pub fn drv_iter_chain<A, B>(a: A, b: B) -> DrvChain<A, B> { DrvChain { a, b, first_done: false } }

pub fn drv_enumerate_next<I: Iterator>(e: &mut DrvEnumerate<I>) -> Option<(usize, I::Item)> {
    match e.it.next() {
        Some(x) => {
            let i = e.n;
            e.n += 1;
            Some((i, x))
        }
        None => None,
    }
}

pub fn drv_take_while_next<I: Iterator, F: FnMut(&I::Item) -> bool>(t: &mut DrvTakeWhile<I, F>) -> Option<I::Item> {
    if t.done {
        return None;
    }
    match t.it.next() {
        Some(x) => {
            if (t.f)(&x) {
                Some(x)
            } else {
                t.done = true;
                None
            }
        }
        None => None,
    }
}

pub fn drv_skip_next<I: Iterator>(s: &mut DrvSkip<I>) -> Option<I::Item> {
    while s.n > 0 {
        s.n -= 1;
        match s.it.next() {
            Some(_) => {}
            None => return None,
        }
    }
    s.it.next()
}

pub fn drv_take_next<I: Iterator>(t: &mut DrvTake<I>) -> Option<I::Item> {
    if t.n == 0 {
        return None;
    }
    t.n -= 1;
    t.it.next()
}

pub fn drv_zip_next<A: Iterator, B: Iterator>(z: &mut DrvZip<A, B>) -> Option<(A::Item, B::Item)> {
    match z.a.next() {
        Some(x) => match z.b.next() {
            Some(y) => Some((x, y)),
            None => None,
        },
        None => None,
    }
}

pub fn drv_chain_next<A: Iterator, B: Iterator<Item = A::Item>>(c: &mut DrvChain<A, B>) -> Option<A::Item> {
    if !c.first_done {
        match c.a.next() {
            Some(x) => return Some(x),
            None => c.first_done = true,
        }
    }
    c.b.next()
}

pub fn drv_iter_position<I: Iterator, F: FnMut(I::Item) -> bool>(it: &mut I, mut f: F) -> Option<usize> {
    let mut i = 0usize;
    loop {
        match it.next() {
            Some(x) => {
                if f(x) {
                    return Some(i);
                }
                i += 1;
            }
            None => return None,
        }
    }
}

pub fn drv_iter_find<I: Iterator, F: FnMut(&I::Item) -> bool>(it: &mut I, mut f: F) -> Option<I::Item> {
    loop {
        match it.next() {
            Some(x) => {
                if f(&x) {
                    return Some(x);
                }
            }
            None => return None,
        }
    }
}

pub fn drv_iter_find_map<I: Iterator, B, F: FnMut(I::Item) -> Option<B>>(it: &mut I, mut f: F) -> Option<B> {
    loop {
        match it.next() {
            Some(x) => {
                if let Some(b) = f(x) {
                    return Some(b);
                }
            }
            None => return None,
        }
    }
}

pub fn drv_iter_fold<I: Iterator, B, F: FnMut(B, I::Item) -> B>(mut it: I, init: B, mut f: F) -> B {
    let mut acc = init;
    loop {
        match it.next() {
            Some(x) => acc = f(acc, x),
            None => return acc,
        }
    }
}

pub fn drv_iter_last<I: Iterator>(mut it: I) -> Option<I::Item> {
    let mut last = None;
    loop {
        match it.next() {
            Some(x) => last = Some(x),
            None => return last,
        }
    }
}

pub fn drv_iter_nth<I: Iterator>(it: &mut I, mut n: usize) -> Option<I::Item> {
    loop {
        match it.next() {
            Some(x) => {
                if n == 0 {
                    return Some(x);
                }
                n -= 1;
            }
            None => return None,
        }
    }
}

/// `[T]::partition_point`: for a slice partitioned by `pred` (the documented precondition) the result is the
/// index of the first element for which `pred` is false; for other slices std leaves the result unspecified.
pub fn drv_slice_partition_point<T, F: FnMut(&T) -> bool>(s: &[T], mut pred: F) -> usize {
    let mut i = 0usize;
    while i < s.len() {
        if !pred(&s[i]) {
            return i;
        }
        i += 1;
    }
    i
}
