"""Mechanical translation of the small imperative subset of Dora used by pkgs/std/thread.dora
(classes Mutex and Condition) into Rust, regenerated from the working tree on every run, so that
the real Dora source of the lock protocol is executed symbolically by the MIR engine.

Subset: consts with integer literals; methods with Int32/Int64/Bool parameters and results;
`let [mut]`, assignment, `if/else`, `while`, `return`, `assert(..)`, method calls, integer and
boolean operators; `@native`/`@internal` declarations become calls to binding functions.
Anything else makes the generated crate fail to compile => the check is inconclusive."""
import re

from .common import Inconclusive

TYPES = {"Int32": "i32", "Int64": "i64", "Bool": "bool", "UInt8": "u8"}


def _class_body(src, name, kind):
    m = re.search(r"^%s\s+%s\b[^{]*\{" % (kind, re.escape(name)), src, flags=re.M)
    if not m:
        raise Inconclusive("%s %s not found in thread.dora" % (kind, name))
    d, i = 0, m.end() - 1
    while i < len(src):
        if src[i] == "{":
            d += 1
        elif src[i] == "}":
            d -= 1
            if d == 0:
                return src[m.end():i]
        i += 1
    raise Inconclusive("unbalanced braces in thread.dora")


def ty(t):
    t = t.strip()
    if t in TYPES:
        return TYPES[t]
    return "&mut " + t            # classes are references


def translate(src, classes, natives):
    """classes: {class name: {field: rust type or None(skip)}}; natives: {(class, method): rust call expr using
    `self` and the parameter names}.  Returns rust source of a module."""
    out = ["#![allow(unused, dead_code, unused_parens, non_snake_case)]", "use crate::c09::*;", ""]
    for m in re.finditer(r"^const\s+(\w+)\s*:\s*(\w+)\s*=\s*([^;]+);", src, flags=re.M):
        out.append("pub const %s: %s = %s;" % (m.group(1), ty(m.group(2)), m.group(3).strip()))
    out.append("")
    for cname in classes:
        body = _class_body(src, cname, "impl")
        out.append("impl %s {" % cname)
        # split into items
        i = 0
        items = []
        while i < len(body):
            m = re.compile(r"((?:@\w+\s+)*)(pub\s+)?(static\s+)?(mutating\s+)?fn\s+(\w+)\s*(\[[^\]]*\])?\s*\(([^)]*)\)\s*(?::\s*([\w\[\]]+))?\s*(\{|;)").search(body, i)
            if not m:
                break
            annots, name, generics, params, ret, opener = m.group(1), m.group(5), m.group(6), m.group(7), m.group(8), m.group(9)
            if opener == ";":
                items.append((annots, name, generics, params, ret, None))
                i = m.end()
                continue
            d, j = 0, m.end() - 1
            while j < len(body):
                if body[j] == "{":
                    d += 1
                elif body[j] == "}":
                    d -= 1
                    if d == 0:
                        break
                j += 1
            items.append((annots, name, generics, params, ret, body[m.end():j]))
            i = j + 1
        for annots, name, generics, params, ret, code in items:
            if "static" in (annots or "") or name == "new" or generics:
                continue
            ps = []
            pnames = []
            for p in [x for x in params.split(",") if x.strip()]:
                pn, pt = p.split(":")
                ps.append("%s: %s" % (pn.strip(), ty(pt)))
                pnames.append(pn.strip())
            sig = "    pub fn %s(&mut self%s)%s" % (name, "".join(", " + p for p in ps), (" -> " + ty(ret)) if ret else "")
            if code is None:
                key = (cname, name)
                if key not in natives:
                    raise Inconclusive("no binding for native %s::%s" % key)
                out.append(sig + " { " + natives[key] + " }")
                continue
            out.append(sig + " {")
            out.append(translate_body(code))
            out.append("    }")
        out.append("}")
        out.append("")
    return "\n".join(out) + "\n"


def translate_body(code):
    s = code
    s = re.sub(r"\bassert\s*\(", "assert!(", s)
    s = re.sub(r"Thread::current\(\)\.id\(\)", "verif_thread_id()", s)
    s = re.sub(r"\b(\d+)i64\b", r"\1i64", s)
    # `let x = ...` without mut stays; Dora `let mut` same as Rust
    # reference parameters are already &mut: method calls on them work unchanged
    return s
