"""C09 part (b) - the atomic intrinsics as emitted machine code (X64 front end).

Kernels `fn k(c: Cell, ..) { c.a.<op>(..) }` for every intrinsic of std::thread::AtomicInt32 /
AtomicInt64 (get, set, exchange, compare_exchange, fetch_add) on a caller-supplied object, both
code generators.  Per kernel:
 1. functional effect for all inputs: returned value == old content, new content as the
    operation prescribes, no other memory touched (z3, cross-checked by cvc5);
 2. shape: the accesses of the cell are grouped into *visible steps*: one instruction with
    atomic semantics (`xchg` with a memory operand - implicitly locked -, or a `lock`-prefixed
    read-modify-write) is one step; a read-modify-write instruction without `lock`, or a
    load ... store sequence, are separate steps;
 3. indivisibility: two threads run the same lifted kernel on the same cell; every interleaving
    of their visible steps must produce (returned values, final content) equal to one of the
    two sequential orders of the reference operation.  sat = lost update / torn operation.
    The race cannot be forced on hardware, so a violation is reported with the decoded
    instruction listing and the solver's schedule instead of a run.
Assumptions about ordering (x86-TSO): an aligned plain `mov` load is an acquire load and an
aligned plain `mov` store a release store, which is what `get`/`set` are taken to need; the
code generators in fact emit `xchg` for `set` (sequentially consistent).  Exposed as
`run(tier) -> dict` for vsym/checks/c09.py; `main(tier)` exists for stand-alone testing."""
import itertools
import json
import os
import time

import z3

from .. import common
from ..common import Inconclusive, log
from ..x64 import build, sem, smt, tv
from ..x64.sem import BV, Unsupported

OPS = [("get", []), ("set", ["v"]), ("exchange", ["v"]), ("compare_exchange", ["e", "v"]), ("fetch_add", ["v"])]
WIDTHS = [(32, "w", "Int32", "AtomicInt32"), (64, "q", "Int64", "AtomicInt64")]
SHORT = {"get": "get", "set": "set", "exchange": "xchg", "compare_exchange": "cas", "fetch_add": "fadd"}
REGS = ["rsi", "rdx"]


def kernels():
    ks = []
    for w, tag, ity, aty in WIDTHS:
        for op, args in OPS:
            ks.append({"name": SHORT[op] + tag, "op": op, "args": args, "w": w, "ity": ity, "aty": aty, "cls": "C" + tag})
    return ks


def source(ks):
    out = ["class Cw { a: std::AtomicInt32 }", "class Cq { a: std::AtomicInt64 }",
           "fn arg(i: Int32): Int64 { std::argv(i).to_int64().get_or_panic() }"]
    for k in ks:
        ps = "".join(", %s: %s" % (a, k["ity"]) for a in k["args"])
        call = "c.a.%s(%s)" % (k["op"], ", ".join(k["args"]))
        if k["op"] == "set":
            out.append("@NeverInline fn %s(c: %s%s) { %s; }" % (k["name"], k["cls"], ps, call))
        else:
            out.append("@NeverInline fn %s(c: %s%s): %s { %s }" % (k["name"], k["cls"], ps, k["ity"], call))
    out.append("fn main() {")
    out.append("  let which = arg(0i32);")
    for i, k in enumerate(ks):
        conv = ".to_int32()" if k["w"] == 32 else ""
        args = "".join(", arg(%di32)%s" % (2 + j, conv) for j in range(len(k["args"])))
        mk = "let c = %s(a = std::%s::new(arg(1i32)%s));" % (k["cls"], k["aty"], conv)
        if k["op"] == "set":
            out.append("  if which == %d { %s %s(c%s); println(\"r=unit m=${c.a.get()}\"); }" % (i, mk, k["name"], args))
        else:
            out.append("  if which == %d { %s let r = %s(c%s); println(\"r=${r} m=${c.a.get()}\"); }" % (i, mk, k["name"], args))
    out.append("}")
    return "\n".join(out) + "\n"


def field_offset():
    """offset of the first field of an object = object header size (dora-compiler/src/layout.rs)"""
    import re
    src = open(os.path.join(common.REPO, "dora-compiler/src/layout.rs")).read()
    if not re.search(r"fn object_header_size\(\)\s*->\s*i32\s*\{\s*std::mem::size_of::<usize>\(\) as i32\s*\}", src):
        raise Inconclusive("object header layout in dora-compiler/src/layout.rs is not the modelled one")
    return 8


def reference(op, old, a):
    """-> (returned value or None, new content)"""
    if op == "get":
        return old, old
    if op == "set":
        return None, a["v"]
    if op == "exchange":
        return old, a["v"]
    if op == "compare_exchange":
        return old, z3.If(old == a["e"], a["v"], old)
    if op == "fetch_add":
        return old, old + a["v"]
    raise KeyError(op)


class Lift:
    def __init__(self, k, be, prog, layout, hdr, hooked):
        self.k, self.be = k, be
        w = k["w"]
        env = self.env = sem.Env(layout)
        self.p = z3.BitVec("p_c", 64)
        env.init_regs["rdi"] = self.p
        env.assume(z3.And(z3.UGE(self.p, BV(1 << 16, 64)), z3.ULE(self.p, BV(1 << 46, 64)), z3.Extract(2, 0, self.p) == BV(0, 3)),
                   "object argument: non-null 8-aligned user-space pointer")
        env.add_region(self.p, BV(16, 64), "cell object")
        self.cell = sem.simp(self.p + BV(hdr, 64))
        self.args = {}
        self.locals = []
        for a, reg in zip(k["args"], REGS):
            v = z3.BitVec("a_" + a, w)
            self.args[a] = v
            self.locals.append(v)
            if w == 64:
                env.init_regs[reg] = v
            elif be == "boots":
                env.init_regs[reg] = z3.ZeroExt(32, v)
            else:
                hi = z3.BitVec("hi_" + a, 32)
                self.locals.append(hi)
                env.init_regs[reg] = z3.Concat(hi, v)
        self.old = sem.heap_load(env.heap0, self.cell, w // 8)
        self.reads = []
        if hooked:
            def overlaps(ex, st, addr, n):
                return ex.feasible(st, z3.Or(z3.ULT(addr - self.cell, BV(w // 8, 64)), z3.ULT(self.cell - addr, BV(n, 64))))

            def load_hook(ex, st, addr, n):
                if not z3.eq(sem.simp(addr), self.cell):
                    if overlaps(ex, st, addr, n):
                        raise Unsupported("access overlapping the cell at another address/width")
                    return None
                if n != w // 8:
                    raise Unsupported("cell read with %d bytes" % n)
                r = sem.fresh("R", w)
                st.events.append(("cell_load", st.cur, r))
                return r

            def store_hook(ex, st, addr, val, n):
                if z3.eq(sem.simp(addr), self.cell):
                    if n != w // 8:
                        raise Unsupported("cell write with %d bytes" % n)
                    st.events.append(("cell_store", st.cur, val))
                elif overlaps(ex, st, addr, n):
                    raise Unsupported("store overlapping the cell at another address/width")
            env.load_hook, env.store_hook = load_hook, store_hook
        self.ex = sem.Explorer(prog, env, sem.Limits(max_visits=3, max_paths=20, deadline_s=120))
        self.paths = self.ex.explore(build.mangle(k["name"]))
        for p in self.paths:
            if p.term.kind != "return":
                raise Unsupported("path ends in %s" % p.term)

    def ret(self, p):
        if self.k["op"] == "set":
            return None
        w = self.k["w"]
        return sem.simp(z3.Extract(w - 1, 0, p.term.rax)) if w < 64 else p.term.rax


def is_atomic_insn(insn):
    mn = insn.mn.rstrip("bwlq")
    if mn == "xchg" and any(o[0] == "mem" for o in insn.ops):
        return True
    return "lock" in insn.prefixes


def steps_of(path):
    """cell accesses of a path grouped into visible steps -> [{'insn', 'R', 'W', 'atomic'}]"""
    steps = []
    for ev in path.events:
        if ev[0] not in ("cell_load", "cell_store"):
            continue
        insn = ev[1]
        same = steps and steps[-1]["insn"] is insn and steps[-1]["atomic"]
        if not same:
            steps.append({"insn": insn, "R": None, "W": None, "atomic": is_atomic_insn(insn)})
        s = steps[-1]
        if ev[0] == "cell_load":
            if s["R"] is not None:
                steps.append({"insn": insn, "R": None, "W": None, "atomic": s["atomic"]})
                s = steps[-1]
            s["R"] = ev[2]
        else:
            if s["W"] is not None:
                steps.append({"insn": insn, "R": None, "W": None, "atomic": s["atomic"]})
                s = steps[-1]
            s["W"] = ev[2]
    return steps


def listing(prog, fn, steps):
    mark = set(s["insn"].off for s in steps)
    out = []
    for i in prog.insns(fn):
        if i.mn == "int3":
            continue
        out.append("%s +%#05x  %s" % ("=>" if i.off in mark else "  ", i.off, i.text.replace("\t", " ")))
    return out


def analyse(k, be, prog, layout, hdr, tier, traps, kidx):
    t0 = time.time()
    res = {"kernel": k["name"], "op": k["op"], "width": k["w"], "backend": be, "status": "ok", "queries": [], "violations": [],
           "validation_runs": 0, "notes": []}
    verd = smt.Verdicts("c09b/%s-%s" % (k["name"], be), tier)
    verd.cvc5_cap_s = 30
    w = k["w"]
    fn = build.mangle(k["name"])
    try:
        # ---- 1. functional effect
        A = Lift(k, be, prog, layout, hdr, hooked=False)
        base = list(A.env.assumptions)
        rret, rnew = reference(k["op"], A.old, A.args)
        want_heap = sem.heap_store(A.env.heap0, A.cell, rnew, w // 8)
        alts = []
        for p in A.paths:
            ms = [p.heap != want_heap]
            if rret is not None:
                ms.append(A.ret(p) != rret)
            alts.append(z3.And(p.pc(), z3.Or(*ms)))
        r, m = verd.check("functional", base + [z3.Or(*alts)])
        res["queries"].append({"kind": "functional", "result": r})
        res["mnemonics"] = sorted(A.ex.stats["mnemonics"])
        if r == "sat":
            vals = {a: sem.model_int(m, v, w) for a, v in A.args.items()}
            old = sem.model_int(m, A.old, w)
            argv = [kidx, old] + [vals[a] for a in k["args"]]
            out = prog.run(argv, timeout=60)
            er = m.eval(rret, model_completion=True).as_long() if rret is not None else None
            en = m.eval(rnew, model_completion=True).as_long()
            exp = "r=%s m=%d\n" % ("unit" if er is None else sem.signed(er, w), sem.signed(en, w))
            if out["stdout"] != exp:
                res["violations"].append({"key": "atomic/%s%d/%s/functional" % (k["op"], w, be),
                                          "what": "%s code generator: %s.%s with old=%d args %s: reference prints %r, real executable %r"
                                                  % (be, k["aty"], k["op"], sem.signed(old, w), vals, exp, out["stdout"]),
                                          "replay": {"argv": argv, "expected": exp, "observed": out["stdout"]}})
            else:
                res["status"] = "inconclusive"
                res["reason"] = "functional counterexample does not reproduce (real run prints the reference result %r)" % exp
        # translator validation on a few inputs
        for init, vs in ((5, [7, 9]), (-1, [-1, 3]), (0, [0, 0]), (1 << (w - 1), [1 << (w - 1), -1])):
            s = z3.Solver()
            s.add(*base)
            s.add(A.old == BV(init % (1 << w), w))
            for a, v in zip(k["args"], vs):
                s.add(A.args[a] == BV(v % (1 << w), w))
            if s.check() != z3.sat:
                continue
            mm = s.model()
            p = [q for q in A.paths if z3.is_true(mm.eval(q.pc(), model_completion=True))]
            if len(p) != 1:
                raise Unsupported("not exactly one path for a concrete input")
            lr = A.ret(p[0])
            newv = mm.eval(sem.heap_load(p[0].heap, A.cell, w // 8), model_completion=True).as_long()
            exp = "r=%s m=%d\n" % ("unit" if lr is None else sem.signed(mm.eval(lr, model_completion=True).as_long(), w), sem.signed(newv, w))
            argv = [kidx, sem.signed(init % (1 << w), w)] + [sem.signed(v % (1 << w), w) for v in vs[:len(k["args"])]]
            out = prog.run(argv, timeout=60, env={"DORA_FLAGS": "--max-heap-size=16M"})
            res["validation_runs"] += 1
            if out["stdout"] != exp and not res["violations"]:
                res["status"] = "inconclusive"
                res["reason"] = "encoding wrong? %s %s: lifted %r real %r" % (k["name"], argv, exp, out["stdout"])
        # ---- 2. visible steps
        Bq = Lift(k, be, prog, layout, hdr, hooked=True)
        if len(Bq.paths) != 1:
            raise Unsupported("%d paths with symbolic cell reads (retry loop?)" % len(Bq.paths))
        p = Bq.paths[0]
        steps = steps_of(p)
        res["steps"] = [{"insn": s["insn"].text.replace("\t", " "), "offset": s["insn"].off, "reads": s["R"] is not None,
                         "writes": s["W"] is not None, "atomic_instruction": s["atomic"]} for s in steps]
        rmw = k["op"] in ("exchange", "compare_exchange", "fetch_add")
        if rmw:
            shape_ok = len(steps) == 1 and steps[0]["R"] is not None and steps[0]["W"] is not None and steps[0]["atomic"]
        elif k["op"] == "get":
            shape_ok = len(steps) == 1 and steps[0]["R"] is not None and steps[0]["W"] is None
        else:
            shape_ok = len(steps) == 1 and steps[0]["W"] is not None
        res["shape_ok"] = shape_ok
        res["listing"] = listing(prog, fn, steps)
        # ---- 3. two threads, all interleavings of the visible steps
        C0 = z3.BitVec("cell0", w)
        ren = []
        for v in Bq.locals + [s["R"] for s in steps if s["R"] is not None]:
            ren.append((v, z3.BitVec(str(v) + "@2", v.size())))
        thr = {}
        for tid in (1, 2):
            def rn(t, tid=tid):
                return z3.substitute(t, *ren) if (tid == 2 and ren and t is not None) else t
            thr[tid] = {"steps": [{"R": rn(s["R"]), "W": rn(s["W"])} for s in steps], "pc": rn(p.pc()),
                        "ret": rn(Bq.ret(p)) if Bq.ret(p) is not None else None,
                        "args": {a: rn(v) for a, v in Bq.args.items()}}
        # sequential reference outcomes
        def seqref(first, second):
            r1, c1 = reference(k["op"], C0, thr[first]["args"])
            r2, c2 = reference(k["op"], c1, thr[second]["args"])
            rets = {first: r1, second: r2}
            return rets[1], rets[2], c2
        s12, s21 = seqref(1, 2), seqref(2, 1)
        n = len(steps)
        bad_alts = []
        scheds = []
        for pos in itertools.combinations(range(2 * n), n):
            order = [2] * (2 * n)
            for i in pos:
                order[i] = 1
            idx = {1: 0, 2: 0}
            sub = {1: [], 2: []}
            cur = C0
            for tid in order:
                stp = thr[tid]["steps"][idx[tid]]
                idx[tid] += 1
                if stp["R"] is not None:
                    sub[tid].append((stp["R"], cur))
                if stp["W"] is not None:
                    cur = z3.substitute(stp["W"], *sub[tid]) if sub[tid] else stp["W"]
            fin = {}
            cond = []
            for tid in (1, 2):
                f = (lambda t, tid=tid: z3.substitute(t, *sub[tid]) if sub[tid] else t)
                cond.append(f(thr[tid]["pc"]))
                fin[tid] = f(thr[tid]["ret"]) if thr[tid]["ret"] is not None else None

            def same(sq):
                cs = [cur == sq[2]]
                if fin[1] is not None:
                    cs += [fin[1] == sq[0], fin[2] == sq[1]]
                return z3.And(*cs)
            bad_alts.append(z3.And(*(cond + [z3.Not(z3.Or(same(s12), same(s21)))])))
            scheds.append(order)
        # the renamed pointer-independent assumptions: only argument ranges matter here
        r, m = verd.check("indivisible", [z3.Or(*bad_alts)])
        res["queries"].append({"kind": "indivisible", "result": r, "interleavings": len(scheds), "visible_steps_per_thread": n})
        if r == "sat":
            which = [i for i, b in enumerate(bad_alts) if z3.is_true(m.eval(b, model_completion=True))]
            sched = scheds[which[0]] if which else None
            wit = {"cell0": sem.model_int(m, C0, w)}
            for tid in (1, 2):
                for a, v in thr[tid]["args"].items():
                    wit["thread%d.%s" % (tid, a)] = sem.model_int(m, v, w)
            res["violations"].append({
                "key": "atomic/%s%d/%s/not-indivisible" % (k["op"], w, be),
                "what": "%s code generator: %s.%s is not one atomic instruction (%s); two threads with schedule %s and %s end in a state "
                        "no sequential order explains (lost update)" % (be, k["aty"], k["op"],
                                                                        "; ".join(s["insn"].text.replace("\t", " ") for s in steps), sched, wit),
                "replay": {"kind": "listing", "note": "a race cannot be forced on hardware: decoded instruction listing and solver schedule",
                           "listing": res["listing"], "schedule": sched, "witness": wit}})
        elif r == "unsat" and not shape_ok:
            res["notes"].append("shape is not the canonical single atomic instruction but every interleaving is linearizable")
        res["paths"] = len(A.paths)
    except Unsupported as e:
        res["status"] = "unsupported"
        res["reason"] = str(e)
    res["verdicts"] = verd.summary()
    res["wall_s"] = round(time.time() - t0, 2)
    return res


_JOB = {}


def _job(job):
    i, be = job
    J = _JOB
    return analyse(J["ks"][i], be, J["progs"][be], J["layout"], J["hdr"], J["tier"], J["traps"], i)


def run(tier):
    """-> dict for vsym/checks/c09.py: verdicts, counts, samples, violations (with keys), assumptions"""
    t0 = time.time()
    common.ensure_dirs()
    import shutil
    shutil.rmtree(os.path.join(common.WORK, "x64", "smt2", "c09b"), ignore_errors=True)
    build.toolchain()
    traps = build.trap_kinds()
    layout = build.tld_layout()
    hdr = field_offset()
    ks = kernels()
    wd = build.workdir("c09b")
    src = os.path.join(wd, "c09b.dora")
    with open(src, "w") as f:
        f.write(source(ks))
    progs = dict(zip(build.BACKENDS, build.compile_all([(src, be) for be in build.BACKENDS])))
    _JOB.update(ks=ks, progs=progs, layout=layout, hdr=hdr, tier=tier, traps=traps)
    from ..x64 import par
    jobs = [(i, be) for i in range(len(ks)) for be in build.BACKENDS]
    results = []
    for (i, be), (st, r) in zip(jobs, par.run_jobs(_job, jobs)):
        if st == "err":
            raise Inconclusive("worker failed for %s/%s: %s" % (ks[i]["name"], be, r))
        results.append(r)
    violations, samples, unsupported, inconclusive = [], [], [], []
    nq = und = 0
    for r in results:
        for v in r["violations"] if r["status"] == "unsupported" else []:
            v = dict(v)
            v["replay"] = dict(v["replay"], source=source(ks), kernel=r["kernel"], backend=r["backend"])
            violations.append(v)
        if r["status"] == "unsupported":
            # a kernel whose functional defect is already reproduced is not "unsupported": the
            # step analysis merely cannot continue (e.g. the cell is accessed with the wrong width)
            if r["violations"]:
                nq += len(r["queries"])
                samples.append({"kernel": r["kernel"], "backend": r["backend"], "queries": r["queries"],
                                "notes": ["step analysis stopped: " + str(r.get("reason"))]})
            else:
                unsupported.append("%s/%s: %s" % (r["kernel"], r["backend"], r.get("reason")))
            continue
        if r["status"] == "inconclusive":
            inconclusive.append("%s/%s: %s" % (r["kernel"], r["backend"], r.get("reason")))
        nq += len(r["queries"])
        und += sum(1 for q in r["queries"] if q["result"] == "unknown")
        for v in r["violations"]:
            v = dict(v)
            v["replay"] = dict(v["replay"], source=source(ks), kernel=r["kernel"], backend=r["backend"])
            violations.append(v)
        samples.append({"kernel": r["kernel"], "backend": r["backend"], "steps": r.get("steps"), "shape_ok": r.get("shape_ok"),
                        "queries": r["queries"], "notes": r["notes"]})
    e = sem.Env(layout)
    out = {
        "part": "C09(b) atomic intrinsics as emitted code",
        "kernels": len(ks), "programs": len([r for r in results if r["status"] == "ok"]),
        "verdict_queries": nq, "verdict_queries_undecided": und,
        "queries": sum(r["verdicts"]["queries"] for r in results), "solver_time_s": round(sum(r["verdicts"]["solver_time_s"] for r in results), 2),
        "cvc5_cross_checked": sum(r["verdicts"]["cvc5_cross_checked"] for r in results),
        "translator_validation_runs": sum(r["validation_runs"] for r in results),
        "verdicts": [{"kernel": r["kernel"], "backend": r["backend"], "status": r["status"], "shape_ok": r.get("shape_ok"),
                      "queries": r["queries"]} for r in results],
        "samples": samples, "violations": violations, "unsupported": unsupported, "inconclusive": inconclusive,
        "mnemonics_executed": sorted(set(m for r in results for m in r.get("mnemonics", []))),
        "assumptions": e.assumption_texts + [
            "object argument: non-null, 8-aligned; the atomic field lives at offset 8 (object header size from dora-compiler/src/layout.rs)",
            "x86-TSO: an aligned plain mov load/store of 4 or 8 bytes is single-copy atomic, a load is an acquire load, a store a release store (taken to be what get/set need; the emitted `set` is in fact an xchg)",
            "`xchg` with a memory operand and `lock`-prefixed read-modify-write instructions are indivisible; a read-modify-write instruction without `lock` and a load..store sequence are two visible steps",
            "two threads, same kernel, same cell, sequentially consistent interleaving of the visible steps; a violation is reported with the instruction listing and the schedule (the race cannot be forced on hardware)",
        ],
        "wall_s": round(time.time() - t0, 2),
    }
    return out


def main(tier):
    out = run(tier)
    path = os.path.join(common.WORK, "x64", "c09b", "result.json")
    with open(path, "w") as f:
        json.dump(out, f, indent=1, default=str)
    for v in out["verdicts"]:
        log("   %s/%s %s shape_ok=%s %s" % (v["kernel"], v["backend"], v["status"], v["shape_ok"], [(q["kind"], q["result"]) for q in v["queries"]]))
    log("[C09B] %d kernels x 2 back ends, %d verdict queries (%d undecided), %d validation runs, %d violations, %.1fs -> %s"
        % (out["kernels"], out["verdict_queries"], out["verdict_queries_undecided"], out["translator_validation_runs"],
           len(out["violations"]), out["wall_s"], path))
    if out["unsupported"] or out["inconclusive"]:
        raise Inconclusive("; ".join(out["unsupported"] + out["inconclusive"])[:800])
    rep = common.Reporter("C09")
    for v in out["violations"]:
        rep.violation(v["key"], v["what"], v["replay"])
    if out["verdict_queries"] and out["verdict_queries_undecided"] == out["verdict_queries"]:
        raise Inconclusive("all queries undecided")
    return rep.exit_code()


def replay(path):
    d = json.load(open(path))["replay"]
    print("C09(b) violations are reported with the instruction listing and the solver schedule:")
    for l in d.get("listing", []):
        print("   " + l)
    print("schedule:", d.get("schedule"), "witness:", d.get("witness"))
    # re-derive: is the kernel still not indivisible in the current tree?
    out = run("quick")
    keys = [v["key"] for v in out["violations"]]
    if any(v["replay"].get("kernel") == d.get("kernel") and v["replay"].get("backend") == d.get("backend") for v in out["violations"]):
        print("VIOLATION property=C09 replay=%s" % path)
        return 1
    print("not reproduced; current violations:", keys)
    return 0
