#!/usr/bin/env python3
"""tools/seed_eval.py <seeded/<id>/<name> dir> <check id> [--tier quick|thorough]
Applies seeded/.../patch.diff to /repo (which must be clean), runs the check, reverts /repo straight afterwards
(git checkout -- .), records exit status and VIOLATION lines in the seed's meta.json under "runs"."""
import json, os, subprocess, sys, time

def sh(cmd, **kw):
    return subprocess.run(cmd, shell=True, text=True, capture_output=True, **kw)

def main():
    d = os.path.abspath(sys.argv[1]); cid = sys.argv[2]
    tier = sys.argv[sys.argv.index("--tier") + 1] if "--tier" in sys.argv else "quick"
    patch = os.path.join(d, "patch.diff")
    st = sh("git -C /repo status --porcelain --untracked-files=no").stdout.strip()
    if st:
        print("refusing: /repo has uncommitted changes:\n" + st); sys.exit(2)
    r = sh("git -C /repo apply --check %s" % patch)
    if r.returncode != 0:
        print("patch does not apply:", r.stderr); sys.exit(2)
    sh("git -C /repo apply %s" % patch)
    # the evidence file describes the unchanged tree: keep it (the run on the mutated tree goes to <seed>/evidence-<id>.json)
    ev = "/verif/evidence/%s.json" % cid
    saved = open(ev).read() if os.path.exists(ev) else None
    t = time.time()
    try:
        env = dict(os.environ); env.setdefault("VERIF_SEED", "0")
        p = subprocess.run(["./check", cid, "--tier", tier], cwd="/verif", text=True, capture_output=True, env=env)
    finally:
        sh("git -C /repo checkout -- .")
        if os.path.exists(ev):
            os.replace(ev, os.path.join(d, "evidence-%s.json" % cid))
        if saved is not None:
            open(ev, "w").write(saved)
    viol = [l for l in p.stdout.splitlines() if l.startswith("VIOLATION") or l.startswith("KNOWN-FINDING")]
    det = [l.strip() for l in p.stderr.splitlines() if "violation key=" in l or "INCONCLUSIVE" in l]
    run = {"check": cid, "tier": tier, "exit": p.returncode, "wall_s": round(time.time() - t, 1), "stdout_lines": viol, "detail": det[:6],
           "caught": p.returncode == 1 and any(l.startswith("VIOLATION") for l in viol)}
    mp = os.path.join(d, "meta.json")
    meta = json.load(open(mp)) if os.path.exists(mp) else {}
    meta.setdefault("runs", []).append(run)
    json.dump(meta, open(mp, "w"), indent=1)
    print(json.dumps(run, indent=1))
    clean = sh("git -C /repo status --porcelain --untracked-files=no").stdout.strip()
    if clean:
        print("WARNING: /repo not clean after revert:", clean)

if __name__ == "__main__":
    main()
