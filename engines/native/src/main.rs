//! verif-native <command> <args…>  — runs real /repo functions on concrete inputs, prints results
//! one `key=value` per line.  A panic in the real code is caught and printed as `panic=<msg>`.
use std::panic;

mod bc;
mod gck;
mod lexcmd;
mod pos;

fn hex_to_bytes(s: &str) -> Vec<u8> {
    (0..s.len() / 2).map(|i| u8::from_str_radix(&s[2 * i..2 * i + 2], 16).unwrap()).collect()
}
fn to_hex(b: &[u8]) -> String {
    b.iter().map(|x| format!("{:02x}", x)).collect()
}

fn symbol(args: &[String]) {
    // symbol <hex name> [max_len]
    let bytes = hex_to_bytes(&args[0]);
    let name = match String::from_utf8(bytes) {
        Ok(s) => s,
        Err(_) => {
            println!("invalid_utf8=1");
            return;
        }
    };
    let m = dora_symbol::mangle_name(&name);
    println!("mangled={}", to_hex(m.as_bytes()));
    match dora_symbol::demangle_name(&m) {
        Some(d) => println!("demangled={}", to_hex(d.as_bytes())),
        None => println!("demangled=None"),
    }
    if args.len() > 1 {
        let max_len: usize = args[1].parse().unwrap();
        let s = dora_symbol::mangle_name_with_max_len(&name, max_len);
        println!("short={}", to_hex(s.as_bytes()));
        match dora_symbol::demangle_name(&s) {
            Some(d) => println!("short_demangled={}", to_hex(d.as_bytes())),
            None => println!("short_demangled=None"),
        }
    }
}

fn demangle(args: &[String]) {
    let bytes = hex_to_bytes(&args[0]);
    let name = String::from_utf8(bytes).unwrap();
    match dora_symbol::demangle_name(&name) {
        Some(d) => println!("demangled={}", to_hex(d.as_bytes())),
        None => println!("demangled=None"),
    }
}

fn main() {
    let args: Vec<String> = std::env::args().collect();
    let cmd = args[1].clone();
    let rest: Vec<String> = args[2..].to_vec();
    let r = panic::catch_unwind(move || match cmd.as_str() {
        "symbol" => symbol(&rest),
        "demangle" => demangle(&rest),
        "position" => pos::position(&rest),
        "bc" => bc::bc(&rest),
        "gck" => gck::gck(&rest),
        "lex" => lexcmd::lexcmd(&rest),
        _ => println!("unknown_command=1"),
    });
    if let Err(e) = r {
        let msg = if let Some(s) = e.downcast_ref::<String>() {
            s.clone()
        } else if let Some(s) = e.downcast_ref::<&str>() {
            s.to_string()
        } else {
            "?".to_string()
        };
        println!("panic={}", msg.replace('\n', " "));
    }
}
