"""Verdict queries: decided by z3 (fresh solver, per-query cap), dumped to SMT-LIB2 and
cross-checked with cvc5.  A disagreement or an `(error` makes the check inconclusive."""
import os
import subprocess
import time

import z3

from .. import common
from ..common import Inconclusive

CVC5 = "cvc5"


def portable(e, side=None):
    """rewrite z3-only operators (bvsmul_noovfl / bvsmul_noudfl, fp.to_ieee_bv) into SMT-LIB 2.6
    terms.  `fp.to_ieee_bv(t)` becomes a fresh bit-vector b with the side condition
    `to_fp(b) = t` appended to `side` (exact whenever t is not NaN - the only use in verdict
    queries is the result of an int->float conversion, which never is)"""
    cache = {}
    stack = [e]
    while stack:
        x = stack[-1]
        i = x.get_id()
        if i in cache:
            stack.pop()
            continue
        if not z3.is_app(x) or x.num_args() == 0:
            cache[i] = x
            stack.pop()
            continue
        kids = x.children()
        todo = [k for k in kids if k.get_id() not in cache]
        if todo:
            stack.extend(todo)
            continue
        nk = [cache[k.get_id()] for k in kids]
        kind = x.decl().kind()
        if kind in (z3.Z3_OP_BSMUL_NO_OVFL, z3.Z3_OP_BSMUL_NO_UDFL):
            a, b = nk
            w = a.size()
            full = z3.SignExt(w, a) * z3.SignExt(w, b)
            if kind == z3.Z3_OP_BSMUL_NO_OVFL:
                r = full <= z3.BitVecVal((1 << (w - 1)) - 1, 2 * w)
            else:
                r = full >= z3.BitVecVal(-(1 << (w - 1)), 2 * w)
        elif kind == z3.Z3_OP_FPA_TO_IEEE_BV and side is not None:
            t = nk[0]
            b = z3.BitVec("ieee!%d" % i, x.size())
            side.append(z3.fpBVToFP(b, t.sort()) == t)
            r = b
        elif all(n.get_id() == k.get_id() for n, k in zip(nk, kids)):
            r = x
        else:
            r = x.decl()(*nk)
        cache[i] = r
        stack.pop()
    return cache[e.get_id()]


_HEAVY = None


def _heavy_kinds():
    global _HEAVY
    if _HEAVY is None:
        names = ["Z3_OP_BSDIV", "Z3_OP_BSREM", "Z3_OP_BUDIV", "Z3_OP_BUREM", "Z3_OP_BSMOD", "Z3_OP_BSDIV_I", "Z3_OP_BSREM_I",
                 "Z3_OP_BUDIV_I", "Z3_OP_BUREM_I", "Z3_OP_BSMOD_I"]
        _HEAVY = set(getattr(z3, n) for n in names if hasattr(z3, n))
    return _HEAVY


def abstract_heavy(assertions):
    """replace every division/remainder term and every product of two non-constant factors by a
    fresh constant (the same term gets the same constant).  The result is an over-approximation:
    if it is unsatisfiable so is the original; a satisfiable answer means nothing."""
    heavy = _heavy_kinds()
    # one normal form for the terms of the lifted code (simplified while lifting) and of the
    # reference (built raw), so that equal operations become the same term
    assertions = [z3.simplify(a) for a in assertions]
    found = {}
    seen = set()
    stack = list(assertions)
    while stack:
        x = stack.pop()
        i = x.get_id()
        if i in seen:
            continue
        seen.add(i)
        if z3.is_app(x) and z3.is_bv(x):
            k = x.decl().kind()
            if k in heavy or (k == z3.Z3_OP_BMUL and sum(1 for c in x.children() if not z3.is_bv_value(c)) >= 2):
                found[i] = x
        stack.extend(x.children())
    if not found:
        return None
    pairs = [(t, z3.BitVec("abs!%d" % n, t.size())) for n, t in enumerate(found.values())]
    return [z3.substitute(a, *pairs) for a in assertions]


class Verdicts:
    def __init__(self, tag, tier, cross=True, dump_dir=None):
        self.tag = tag
        self.cap_s = 60 if tier == "quick" else 300
        self.cross = cross
        self.dir = dump_dir or os.path.join(common.WORK, "x64", "smt2", tag)
        os.makedirs(self.dir, exist_ok=True)
        self.n = 0
        self.time_s = 0.0
        self.cvc5_time_s = 0.0
        self.undecided = 0
        self.cross_checked = 0
        self.cross_undecided = 0
        self.log = []

    def check(self, name, assertions, want_model=True, cross=None, abstract=False):
        """-> ('sat', model) | ('unsat', None) | ('unknown', None).  abstract=True: first ask the
        over-approximation without multiplier/divider terms; its `unsat` is a proof for the
        original query (logged as such), anything else falls through to the exact query."""
        if abstract:
            ab = abstract_heavy(list(assertions))
            if ab is not None:
                r, _ = self.check(name + "-abstract", ab, want_model=False, cross=cross)
                if r == "unsat":
                    self.log[-1]["proves"] = name
                    self.abstract_proofs = getattr(self, "abstract_proofs", 0) + 1
                    return "unsat", None
                if r == "unknown":
                    self.undecided -= 1            # only the exact query counts
        s = z3.Solver()
        s.set("timeout", int(self.cap_s * 1000))
        for a in assertions:
            s.add(a)
        t = time.time()
        r = s.check()
        dt = time.time() - t
        self.n += 1
        self.time_s += dt
        res = "sat" if r == z3.sat else ("unsat" if r == z3.unsat else "unknown")
        if res == "unknown":
            self.undecided += 1
        self.log.append({"query": name, "z3": res, "z3_s": round(dt, 3)})
        if self.cross if cross is None else cross:
            other = self._cvc5(name, s, res)
            self.log[-1]["cvc5"] = other
        return res, (s.model() if res == "sat" and want_model else None)

    def _cvc5(self, name, solver, z3res):
        path = os.path.join(self.dir, "%04d-%s.smt2" % (self.n, "".join(c if c.isalnum() or c in "-_." else "_" for c in name)[:80]))
        ps = z3.Solver()
        side = []
        for a in solver.assertions():
            ps.add(portable(a, side))
        for c in side:
            ps.add(c)
        body = ps.to_smt2()
        # z3 prints its internal division operators (identical to the SMT-LIB ones under its
        # default hardware interpretation of division by zero)
        for a, b in (("bvsdiv_i", "bvsdiv"), ("bvsrem_i", "bvsrem"), ("bvudiv_i", "bvudiv"), ("bvurem_i", "bvurem"),
                     ("bvsmod_i", "bvsmod")):
            body = body.replace("(" + a + " ", "(" + b + " ")
        with open(path, "w") as f:
            f.write("(set-logic ALL)\n" + body.replace("(set-logic ALL)\n", ""))
        t = time.time()
        try:
            cap = getattr(self, "cvc5_cap_s", self.cap_s)
            p = subprocess.run([CVC5, "--lang", "smt2", "--tlimit=%d" % int(cap * 1000), path],
                               stdout=subprocess.PIPE, stderr=subprocess.PIPE, text=True, timeout=cap + 30)
            out = (p.stdout + p.stderr).strip()
        except subprocess.TimeoutExpired:
            out = "timeout"
        self.cvc5_time_s += time.time() - t
        first = out.split("\n")[0].strip() if out else ""
        if "(error" in out:
            raise Inconclusive("cvc5 reports an error on %s: %s" % (path, out[:300]))
        if first in ("sat", "unsat"):
            self.cross_checked += 1
            if z3res in ("sat", "unsat") and first != z3res:
                raise Inconclusive("solver disagreement on %s: z3 says %s, cvc5 says %s" % (path, z3res, first))
            return first
        self.cross_undecided += 1
        return "unknown"

    def summary(self):
        return {"queries": self.n, "solver_time_s": round(self.time_s, 2), "undecided": self.undecided,
                "cvc5_cross_checked": self.cross_checked, "cvc5_undecided": self.cross_undecided,
                "cvc5_time_s": round(self.cvc5_time_s, 2), "per_query_cap_s": self.cap_s,
                "proved_on_abstraction": getattr(self, "abstract_proofs", 0)}
