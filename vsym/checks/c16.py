"""C16 — the syntax tree loses nothing of the text: the LEXER-LEVEL claim (MIR-seq).

For every well-formed UTF-8 text within the bounds: the token starts returned by the real `dora_parser::lex`
tile the text (first token at 0, every token starts where the previous one ended, positive lengths, sum ==
text length, one trailing EOF), every token boundary is a char boundary, every error span lies inside the
text; `compute_line_starts` is exactly [0] + the offsets after every LF / CRLF / lone CR,
`compute_line_column` composed with `line_starts[line-1] + column - 1` is the identity on every offset, the
lines returned by `get_line_content` add up to the text.  Parser, green tree, re-parse stability are outside.
Implementation shared with C06: vsym/lexcheck.py (families, induction, replay are described there)."""
from .. import lexcheck

PID = "C16"


def main(tier):
    return lexcheck.run(PID, tier)


def replay(path):
    return lexcheck.replay(PID, path)
