//! Iterator adaptors of the standard library, re-implemented as plain loops so that they exist
//! as MIR: calls to the std adaptors in repository code are redirected here (vsym/mir/interp.py
//! `std_redirects`).  Closures passed to them are then called at MIR level, so visible
//! operations inside a closure (an atomic load in `|t| t.is_running()`) end a bmc edge properly.
#![allow(unused)]

pub struct DrvFilter<I, F> { pub it: I, pub f: F }
pub struct DrvMap<I, F> { pub it: I, pub f: F }

pub fn drv_iter_filter<I, F>(it: I, f: F) -> DrvFilter<I, F> { DrvFilter { it, f } }
pub fn drv_iter_map<I, F>(it: I, f: F) -> DrvMap<I, F> { DrvMap { it, f } }

pub fn drv_filter_count<I: Iterator, F: FnMut(&I::Item) -> bool>(mut fl: DrvFilter<I, F>) -> usize {
    let mut n = 0usize;
    loop {
        match fl.it.next() {
            Some(x) => {
                if (fl.f)(&x) {
                    n += 1;
                }
            }
            None => break,
        }
    }
    n
}

pub fn drv_filter_next<I: Iterator, F: FnMut(&I::Item) -> bool>(fl: &mut DrvFilter<I, F>) -> Option<I::Item> {
    loop {
        match fl.it.next() {
            Some(x) => {
                if (fl.f)(&x) {
                    return Some(x);
                }
            }
            None => return None,
        }
    }
}

pub fn drv_map_next<I: Iterator, B, F: FnMut(I::Item) -> B>(m: &mut DrvMap<I, F>) -> Option<B> {
    match m.it.next() {
        Some(x) => Some((m.f)(x)),
        None => None,
    }
}

pub fn drv_iter_count<I: Iterator>(mut it: I) -> usize {
    let mut n = 0usize;
    loop {
        match it.next() {
            Some(_) => n += 1,
            None => break,
        }
    }
    n
}

pub fn drv_iter_any<I: Iterator, F: FnMut(I::Item) -> bool>(it: &mut I, mut f: F) -> bool {
    loop {
        match it.next() {
            Some(x) => {
                if f(x) {
                    return true;
                }
            }
            None => return false,
        }
    }
}

pub fn drv_iter_all<I: Iterator, F: FnMut(I::Item) -> bool>(it: &mut I, mut f: F) -> bool {
    loop {
        match it.next() {
            Some(x) => {
                if !f(x) {
                    return false;
                }
            }
            None => return true,
        }
    }
}

pub fn drv_iter_for_each<I: Iterator, F: FnMut(I::Item)>(mut it: I, mut f: F) {
    loop {
        match it.next() {
            Some(x) => f(x),
            None => break,
        }
    }
}
