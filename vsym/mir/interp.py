"""Path-exploring symbolic interpreter for parsed MIR (mode `seq`).

Exploration is by *re-execution*: a path is identified by the list of outcomes of its
non-concrete branch decisions; `Explorer.run` executes the harness body once per path, replaying
the prefix and asking the solver only at new decisions.  All values are immutable python objects
(functional updates), so `copy`/`move` need no cloning.
"""
import re
import time

import z3

from ..common import Inconclusive
from . import parse as P

USIZE = 64
INT_W = {"u8": 8, "i8": 8, "u16": 16, "i16": 16, "u32": 32, "i32": 32, "u64": 64, "i64": 64, "u128": 128, "i128": 128,
         "usize": 64, "isize": 64, "char": 32}


def is_signed(ty):
    return ty in ("i8", "i16", "i32", "i64", "i128", "isize")


# ------------------------------------------------------------------------------------------
# values

class Int:
    """machine integer / char: z3 bit-vector + rust type name"""
    __slots__ = ("t", "ty")

    def __init__(self, t, ty):
        if isinstance(t, int):
            t = z3.BitVecVal(t, INT_W[ty])
        self.t, self.ty = t, ty

    @property
    def w(self):
        return INT_W[self.ty]

    def conc(self):
        s = z3.simplify(self.t)
        if z3.is_bv_value(s):
            return s.as_long()
        return None

    def __repr__(self):
        c = self.conc()
        return "%s:%s" % (c if c is not None else self.t, self.ty)


class Tup:
    """tuple / struct / closure environment: positional fields"""
    __slots__ = ("name", "fields", "fnames")

    def __init__(self, fields, name=None, fnames=None):
        self.fields, self.name, self.fnames = tuple(fields), name, fnames

    def __repr__(self):
        return "%s%r" % (self.name or "", self.fields)


class Adt:
    """enum value with a concrete variant"""
    __slots__ = ("name", "variant", "fields")

    def __init__(self, name, variant, fields=()):
        self.name, self.variant, self.fields = name, variant, tuple(fields)

    def __repr__(self):
        return "%s::%s%r" % (self.name, self.variant, self.fields)


class VecV:
    """Vec<T> / String / boxed slice / array: concrete length, symbolic elements"""
    __slots__ = ("elems", "kind")

    def __init__(self, elems, kind="vec"):
        self.elems, self.kind = tuple(elems), kind

    def __repr__(self):
        return "%s%r" % (self.kind, self.elems)


class Slice:
    """&[T] / &str: immutable snapshot (shared borrows cannot observe mutation)"""
    __slots__ = ("elems", "kind")

    def __init__(self, elems, kind="slice"):
        self.elems, self.kind = tuple(elems), kind

    def __repr__(self):
        return "&%s%r" % (self.kind, self.elems)


class Cell:
    __slots__ = ("v", "tag")

    def __init__(self, v=None, tag=None):
        self.v, self.tag = v, tag


class Ref:
    """pointer to a cell + projection path"""
    __slots__ = ("cell", "path")

    def __init__(self, cell, path=()):
        self.cell, self.path = cell, tuple(path)

    def __repr__(self):
        return "Ref(%s%r)" % (self.cell.tag, self.path)


class FnItem:
    __slots__ = ("name",)

    def __init__(self, name):
        self.name = name

    def __repr__(self):
        return "fn{%s}" % self.name


class Opaque:
    """a value the executor does not look into (ZSTs, PhantomData, fmt::Argument …)"""
    __slots__ = ("what", "payload")

    def __init__(self, what, payload=None):
        self.what, self.payload = what, payload

    def __repr__(self):
        return "Opaque(%s)" % self.what


UNIT = Tup(())


class TailCall:
    """returned by a model: continue by calling `fvalue(args)` at MIR level (a pushed frame, so that visible
    operations inside it can end a bmc edge); its result becomes the result of the modelled call"""
    __slots__ = ("f", "args")

    def __init__(self, f, args):
        self.f, self.args = f, list(args)


class Panic(Exception):
    def __init__(self, msg, where=""):
        Exception.__init__(self, msg)
        self.msg, self.where = msg, where


class PathAbort(Exception):
    """path pruned by an assumption that turned out infeasible"""


# well known enum discriminants
DISCR = {
    "Option": {"None": 0, "Some": 1},
    "Result": {"Ok": 0, "Err": 1},
    "ControlFlow": {"Continue": 0, "Break": 1},
    "Ordering": {"Less": -1, "Equal": 0, "Greater": 1},
}


def enum_base(name):
    n = P.strip_generics(name or "")
    n = re.sub(r"<.*$", "", n)
    return n.split("::")[-1]


# ------------------------------------------------------------------------------------------
# path context

class Ctx:
    def __init__(self, explorer, prefix):
        self.ex = explorer
        self.prefix = prefix
        self.pos = 0
        self.trace = []          # decisions taken on this path (incl. forced ones)
        self.solver = z3.Solver()
        self.solver.set("timeout", explorer.query_timeout_ms)
        self.pc = []
        self.steps = 0
        self.fresh_n = 0
        self.notes = []
        self.last_model = None   # a model of the current pc, when known (saves feasibility queries)
        self.on_visible = None   # bmc mode: hook(interp, stack, callee, model) called before library calls / drops

    # -- symbols
    def sym(self, name, ty):
        if ty == "bool":
            return z3.Bool(name)
        return Int(z3.BitVec(name, INT_W[ty]), ty)

    def fresh(self, hint, ty):
        self.fresh_n += 1
        return self.sym("%s!%d" % (hint, self.fresh_n), ty)

    # -- constraints
    def add(self, c):
        self.pc.append(c)
        self.solver.add(c)
        if self.last_model is not None:
            try:
                if not z3.is_true(self.last_model.eval(c, model_completion=True)):
                    self.last_model = None
            except z3.Z3Exception:
                self.last_model = None

    def assume(self, c):
        c = z3.simplify(c)
        if z3.is_true(c):
            return
        if z3.is_false(c):
            raise PathAbort()
        self.add(c)

    def _check(self, extra):
        self.ex.queries += 1
        t = time.time()
        self.solver.push()
        self.solver.add(extra)
        r = self.solver.check()
        if r == z3.sat:
            self._cand_model = self.solver.model()
        self.solver.pop()
        self.ex.solver_time += time.time() - t
        if r == z3.unknown:
            raise Inconclusive("solver unknown on a feasibility query: " + self.solver.reason_unknown())
        return r == z3.sat

    def branch(self, cond):
        """decide a Bool; forks the exploration when both outcomes are feasible"""
        c = z3.simplify(cond)
        if z3.is_true(c):
            return True
        if z3.is_false(c):
            return False
        if self.pos < len(self.prefix):
            d = self.prefix[self.pos]
            self.pos += 1
            self.trace.append(d)
            self.add(c if d else z3.Not(c))
            return d
        self.pos += 1
        known = None
        if self.last_model is not None:
            try:
                mv = self.last_model.eval(c, model_completion=True)
                known = True if z3.is_true(mv) else (False if z3.is_false(mv) else None)
            except z3.Z3Exception:
                known = None
        if known is None:
            t_ok = self._check(c)
            if t_ok:
                self.last_model = self._cand_model
            f_ok = self._check(z3.Not(c))
            if f_ok and not t_ok:
                self.last_model = self._cand_model
        elif known:
            self.ex.model_hits += 1
            t_ok = True
            f_ok = self._check(z3.Not(c))
        else:
            self.ex.model_hits += 1
            f_ok = True
            t_ok = self._check(c)
            if t_ok:
                # we continue on the true side: adopt its model
                self.last_model = self._cand_model
        if t_ok and f_ok:
            self.ex.push(tuple(self.trace) + (False,))
            self.ex.forks += 1
            self.trace.append(True)
            self.add(c)
            return True
        if t_ok:
            self.ex.pruned += 1
            self.trace.append(True)
            self.add(c)
            return True
        if f_ok:
            self.ex.pruned += 1
            self.trace.append(False)
            self.add(z3.Not(c))
            return False
        raise PathAbort()

    def choose(self, conds):
        """index of the first condition that holds (forks); conds need not be exclusive"""
        for i, c in enumerate(conds[:-1]):
            if self.branch(c):
                return i
        return len(conds) - 1

    def concretize(self, iv, lo, hi, what="index"):
        """fork over the values lo..hi-1 of a symbolic integer"""
        c = iv.conc()
        if c is not None:
            return c
        for k in range(lo, hi):
            if self.branch(iv.t == z3.BitVecVal(k, iv.w)):
                return k
        raise Inconclusive("symbolic %s outside %d..%d" % (what, lo, hi))

    def can(self, cond):
        """is pc ∧ cond satisfiable?  (verdict query; no fork)"""
        c = z3.simplify(cond)
        if z3.is_false(c):
            return False
        self.ex.verdict_queries += 1
        return self._check(c)

    def model(self, cond=None):
        self.solver.push()
        if cond is not None:
            self.solver.add(cond)
        r = self.solver.check()
        m = self.solver.model() if r == z3.sat else None
        self.solver.pop()
        return m


class Explorer:
    def __init__(self, query_timeout_ms=60000, max_paths=2000000, max_steps=200000, deadline=None):
        self.query_timeout_ms = query_timeout_ms
        self.max_paths, self.max_steps = max_paths, max_steps
        self.work = []
        self.queries = self.verdict_queries = self.forks = self.pruned = self.model_hits = 0
        self.solver_time = 0.0
        self.paths = self.aborted = 0
        self.deadline = deadline

    def push(self, prefix):
        self.work.append(prefix)

    def run(self, body, prefixes=((),)):
        """body(ctx) -> None; called once per feasible path.  Exceptions Panic are passed to the body's
        own handling (the body should catch them); PathAbort ends a path silently."""
        self.work = list(prefixes)
        while self.work:
            if self.deadline and time.time() > self.deadline:
                raise Inconclusive("exploration deadline exceeded with %d prefixes left" % len(self.work))
            prefix = self.work.pop()
            ctx = Ctx(self, prefix)
            try:
                body(ctx)
                self.paths += 1
            except PathAbort:
                self.aborted += 1
            if self.paths > self.max_paths:
                raise Inconclusive("path bound exceeded")

    def frontier(self, body, depth):
        """explore only to decision depth `depth`; returns prefixes for fan-out"""
        raise NotImplementedError


# ------------------------------------------------------------------------------------------
# the interpreter

class Frame:
    __slots__ = ("fn", "cells", "bb", "mid")

    def __init__(self, fn):
        self.fn = fn
        self.cells = {}
        self.bb = 0
        self.mid = False      # True: resume at the terminator of block bb (statements already done)


class Loc:
    """evaluated place: cell+path, or a read-only temporary value"""
    __slots__ = ("cell", "path", "val")

    def __init__(self, cell=None, path=(), val=None):
        self.cell, self.path, self.val = cell, tuple(path), val


def get_path(v, path):
    for p in path:
        v = child(v, p)
    return v


def child(v, p):
    if isinstance(v, (Tup, Adt)):
        if p >= len(v.fields):
            raise Inconclusive("field %d of %r" % (p, v))
        return v.fields[p]
    if isinstance(v, (VecV, Slice)):
        return v.elems[p]
    if isinstance(v, Opaque) and isinstance(v.payload, (tuple, list)):
        return v.payload[p]
    raise Inconclusive("projection %r into %r" % (p, v))


def set_path(v, path, new):
    if not path:
        return new
    p = path[0]
    if isinstance(v, Tup):
        f = list(v.fields)
        while len(f) <= p:
            f.append(None)
        f[p] = set_path(f[p], path[1:], new)
        return Tup(f, v.name, v.fnames)
    if isinstance(v, Adt):
        f = list(v.fields)
        while len(f) <= p:
            f.append(None)
        f[p] = set_path(f[p], path[1:], new)
        return Adt(v.name, v.variant, f)
    if isinstance(v, VecV):
        f = list(v.elems)
        f[p] = set_path(f[p], path[1:], new)
        return VecV(f, v.kind)
    if v is None:
        f = [None] * (p + 1)
        f[p] = set_path(None, path[1:], new)
        return Tup(f)
    raise Inconclusive("write through %r into %r" % (path, v))


class Interp:
    def __init__(self, prog, models, extra_progs=()):
        self.prog = prog
        self.progs = [prog] + list(extra_progs)
        self.models = models        # list of (regex, fn)
        self._model_cache = {}
        self.called = set()         # MIR functions interpreted (for evidence)
        self.models_used = set()
        self.enum_discr = dict(DISCR)
        self.hooks = {}             # name -> python callable overriding a MIR fn
        self.redirects = {}         # name -> name of the MIR function to run instead
        self.const_overrides = {}   # last path segment of a named constant -> value (scaled-down bounds; stated in evidence)

    # -- callee resolution
    def find_model(self, name):
        if name in self._model_cache:
            return self._model_cache[name]
        key = canon_callee(name)
        hit = None
        for pat, fn in self.models:
            if pat.fullmatch(key):
                hit = fn
                break
        self._model_cache[name] = hit
        return hit

    def find_fn(self, name, nargs):
        for pr in self.progs:
            f = pr.find(name, nargs)
            if f is not None:
                return f
        return None

    # -- calls
    def call(self, ctx, callee, args):
        """callee: text of a callee expression (used by harnesses and by models calling back)"""
        res = self.resolve_call(ctx, None, callee, args)
        return self._do_resolved(ctx, res, callee)

    def call_value(self, ctx, f, args):
        """call a function value (fn item or closure)"""
        return self._do_resolved(ctx, self.resolve_value(f, args), "<value>")

    def _do_resolved(self, ctx, res, callee):
        if res[0] == "mir":
            return self.run_fn(ctx, res[1], res[2])
        name = res[3] if len(res) > 3 else callee
        self.models_used.add(canon_callee(name))
        r = res[1](self, ctx, name, res[2])
        if isinstance(r, TailCall):
            return self.call_value(ctx, r.f, r.args)
        return r

    def closure_body(self, cname):
        for pr in self.progs:
            for f in pr.order:
                if f.params and cname in f.params[0][1] and "{closure#" in f.name:
                    return f
        raise Inconclusive("closure body not found for " + cname)

    def new_frame(self, fn, args):
        self.called.add(fn.name)
        if len(args) != len(fn.params):
            raise Inconclusive("arity mismatch calling %s" % fn.name)
        fr = Frame(fn)
        for (idx, ty), a in zip(fn.params, args):
            fr.cells[idx] = Cell(a, "%s._%d" % (fn.name, idx))
        return fr

    def run_fn(self, ctx, fn, args):
        if fn.name in self.hooks:
            return self.hooks[fn.name](self, ctx, fn, args)
        return self.exec(ctx, [self.new_frame(fn, args)])

    def resolve_call(self, ctx, fr, callee, args):
        """-> ('model', fn) | ('mir', Fn, args) | ('value', v)"""
        c = callee.strip()
        if re.fullmatch(r"(copy |move )?_\d+", c) or c.startswith(("move ", "copy ")):
            fv = self.operand(ctx, fr, P.parse_operand(c))
            return self.resolve_value(fv, args)
        m = self.find_model(c)
        if m is not None:
            return ("model", m, args)
        # FnOnce/FnMut/Fn::call* on a closure or fn item: push the body instead of recursing
        if re.match(r"^<.* as (std::ops::|core::ops::)?Fn(Once|Mut)?<.*>>::call(_once|_mut)?$", canon_callee(c)):
            tup = args[1] if len(args) > 1 else UNIT
            rest = list(tup.fields) if isinstance(tup, Tup) else []
            return self.resolve_value(args[0], rest)
        fn = self.find_fn(c, len(args))
        if fn is None:
            # std iterator adaptors re-implemented as MIR in the drivers crate (closures run at MIR level)
            cc = canon_callee(c)
            for pat, target in STD_REDIRECTS:
                if pat.fullmatch(cc):
                    tgt = self.find_fn(target, None)
                    if tgt is not None:
                        return ("mir", tgt, args)
            raise Inconclusive("no MIR body and no model for callee `%s`" % callee)
        if fn.name in self.redirects:
            # replace a function of the repository by an environment function written in the drivers crate
            tgt = self.find_fn(self.redirects[fn.name], None)
            if tgt is None:
                raise Inconclusive("redirect target %s missing" % self.redirects[fn.name])
            return ("mir", tgt, args)
        if fn.name in self.hooks:
            return ("model", lambda it, cx, cal, ar: self.hooks[fn.name](it, cx, fn, ar), args)
        return ("mir", fn, args)

    def resolve_value(self, f, args):
        if isinstance(f, Ref):
            f = get_path(f.cell.v, f.path)
        if isinstance(f, FnItem):
            m = self.find_model(f.name)
            if m is not None:
                return ("model", m, args, f.name)
            fn = self.find_fn(f.name, len(args))
            if fn is None:
                raise Inconclusive("no MIR body and no model for fn item `%s`" % f.name)
            return ("mir", fn, args)
        if isinstance(f, Tup) and f.name and f.name.startswith("{closure@"):
            fn = self.closure_body(f.name)
            p0 = fn.params[0][1] if fn.params else ""
            env = Ref(Cell(f, "closure-env")) if p0.startswith("&") else f
            return ("mir", fn, [env] + list(args))
        raise Inconclusive("call of non-function value %r" % (f,))

    def exec(self, ctx, stack, base=None):
        """runs until the bottom frame of `stack` returns; returns its value.  In bmc mode the
        `ctx.on_visible` hook may raise to stop in front of a visible operation."""
        if base is None:
            base = len(stack)
        while True:
            fr = stack[-1]
            fn = fr.fn
            blk = fn.blocks[fr.bb]
            if not fr.mid:
                for st in blk.stmts:
                    self.exec_stmt(ctx, fr, st)
            fr.mid = False
            ctx.steps += 1
            if ctx.steps > ctx.ex.max_steps:
                raise Inconclusive("step bound exceeded in " + fn.name)
            t = blk.term
            k = t.kind
            if k == "goto":
                fr.bb = t.f["bb"]
            elif k == "return":
                c = fr.cells.get(0)
                rv = c.v if c is not None and c.v is not None else UNIT
                stack.pop()
                if len(stack) < base:
                    return rv
                caller = stack[-1]
                ct = caller.fn.blocks[caller.bb].term
                if ct.f["bb"] is None:
                    raise Panic("diverging call returned: " + ct.f["callee"], caller.fn.name)
                if ct.f["dest"] is not None:
                    self.store(ctx, caller, ct.f["dest"], rv)
                caller.bb = ct.f["bb"]
                caller.mid = False
            elif k == "switch":
                v = self.operand(ctx, fr, t.f["op"])
                fr.bb = self.do_switch(ctx, v, t.f["arms"], t.f["otherwise"])
            elif k == "assert":
                c = as_bool(self.operand(ctx, fr, t.f["cond"]))
                ok = c if t.f["expected"] else z3.Not(c)
                if ctx.branch(ok):
                    fr.bb = t.f["bb"]
                else:
                    raise Panic("assert: " + t.f["msg"], "%s bb%d" % (fn.name, fr.bb))
            elif k == "call":
                callee = t.f["callee"]
                args2 = [self.operand(ctx, fr, a) for a in t.f["args"]]
                res = self.resolve_call(ctx, fr, callee, args2)
                if res[0] == "mir":
                    nf = self.new_frame(res[1], res[2])
                    fr.mid = True          # on return, do not re-run this block's statements
                    stack.append(nf)
                    continue
                name = res[3] if len(res) > 3 else callee
                if ctx.on_visible is not None:
                    ctx.on_visible(self, stack, canon_callee(name), res[1])
                self.models_used.add(canon_callee(name))
                r = res[1](self, ctx, name, res[2])
                if isinstance(r, TailCall):
                    res2 = self.resolve_value(r.f, r.args)
                    if res2[0] == "mir":
                        fr.mid = True
                        stack.append(self.new_frame(res2[1], res2[2]))
                        continue
                    r = res2[1](self, ctx, res2[3] if len(res2) > 3 else "<value>", res2[2])
                if t.f["bb"] is None:
                    raise Panic("diverging call returned: " + callee, fn.name)
                if t.f["dest"] is not None:
                    self.store(ctx, fr, t.f["dest"], r)
                fr.bb = t.f["bb"]
            elif k == "drop":
                if ctx.on_visible is not None:
                    ctx.on_visible(self, stack, "drop", None)
                self.do_drop(ctx, fr, t.f["place"])
                fr.bb = t.f["bb"]
            elif k == "unreachable":
                raise Panic("reached `unreachable` terminator (UB)", "%s bb%d" % (fn.name, fr.bb))
            elif k == "resume":
                raise Panic("resume", fn.name)
            else:
                raise Inconclusive("unparsed terminator in %s: %s" % (fn.name, t.text))

    def do_drop(self, ctx, fr, place):
        if place.projs:
            return
        c = fr.cells.get(place.local)
        if c is not None and isinstance(c.v, Tup) and c.v.name == "MutexGuard":
            m = c.v.fields[0]
            m.cell.v = set_path(m.cell.v, m.path + (0,), z3.BoolVal(False))
            c.v = None

    def do_switch(self, ctx, v, arms, otherwise):
        if z3.is_expr(v) and z3.is_bool(v):
            # bool: arms are 0 / otherwise
            for val, b in arms:
                c = z3.Not(v) if val == 0 else v
                if otherwise is None and (val, b) == arms[-1]:
                    return b
                if ctx.branch(c):
                    return b
            return otherwise
        if not isinstance(v, Int):
            raise Inconclusive("switchInt on %r" % (v,))
        for i, (val, b) in enumerate(arms):
            c = v.t == z3.BitVecVal(val, v.w)
            if otherwise is None and i == len(arms) - 1:
                return b
            if ctx.branch(c):
                return b
        return otherwise

    # -- statements
    def exec_stmt(self, ctx, fr, st):
        if st.kind == "assign":
            v = self.rvalue(ctx, fr, st.b, st.a)
            self.store(ctx, fr, st.a, v)
        elif st.kind == "setdiscr":
            raise Inconclusive("SetDiscriminant: " + st.text)
        elif st.kind == "unparsed":
            raise Inconclusive("unparsed MIR statement in %s: %s (%s)" % (fr.fn.name, st.text, st.b))

    # -- places
    def loc(self, ctx, fr, place):
        cell = fr.cells.get(place.local)
        if cell is None:
            cell = fr.cells[place.local] = Cell(None, "%s._%d" % (fr.fn.name, place.local))
        cur = Loc(cell, ())
        for pj in place.projs:
            k = pj[0]
            if k == "deref":
                v = self.read_loc(cur)
                if isinstance(v, Ref):
                    cur = Loc(v.cell, v.path)
                elif isinstance(v, (Slice,)):
                    cur = Loc(val=v)
                elif isinstance(v, Opaque) and v.what == "box":
                    cur = Loc(v.payload.cell, v.payload.path)
                else:
                    raise Inconclusive("deref of %r in %s" % (v, fr.fn.name))
            elif k == "field":
                cur = self.proj(cur, pj[1])
            elif k == "downcast":
                pass
            elif k == "index":
                iv = self.read_loc(Loc(fr.cells[pj[1]], ()))
                seq = self.read_loc(cur)
                n = len(seq.elems)
                i = ctx.concretize(iv, 0, n)
                if i >= n:
                    raise Panic("index out of bounds (unchecked projection)", fr.fn.name)
                cur = self.proj(cur, i)
            elif k == "constindex":
                seq = self.read_loc(cur)
                i = pj[1] if not pj[3] else len(seq.elems) - pj[1]
                cur = self.proj(cur, i)
            elif k == "subslice":
                seq = self.read_loc(cur)
                a = pj[1]
                b = len(seq.elems) - pj[2] if pj[3] else (pj[2] if pj[2] else len(seq.elems))
                cur = Loc(val=Slice(seq.elems[a:b], getattr(seq, "kind", "slice")))
            else:
                raise Inconclusive("projection " + k)
        return cur

    def proj(self, cur, i):
        if cur.val is not None:
            return Loc(val=child(cur.val, i))
        return Loc(cur.cell, cur.path + (i,))

    def read_loc(self, l):
        if l.val is not None:
            return l.val
        v = l.cell.v
        try:
            return get_path(v, l.path)
        except (IndexError, TypeError):
            raise Inconclusive("read of uninitialised/ill-shaped place %s%r" % (l.cell.tag, l.path))

    def store(self, ctx, fr, place, v):
        l = self.loc(ctx, fr, place)
        if l.val is not None:
            raise Inconclusive("store into a temporary")
        l.cell.v = set_path(l.cell.v, l.path, v)

    # -- operands
    def operand(self, ctx, fr, op):
        k = op[0]
        if k in ("copy", "move"):
            v = self.read_loc(self.loc(ctx, fr, op[1]))
            if v is None:
                raise Inconclusive("read of uninitialised local in %s: %r" % (fr.fn.name, op[1],))
            return v
        return self.const(ctx, fr, op[1])

    def const(self, ctx, fr, text, ty_hint=None):
        t = text.strip()
        m = re.fullmatch(r"(-?\d+)_(u8|i8|u16|i16|u32|i32|u64|i64|u128|i128|usize|isize)", t)
        if m:
            return Int(int(m.group(1)) & ((1 << INT_W[m.group(2)]) - 1), m.group(2))
        if t == "true":
            return z3.BoolVal(True)
        if t == "false":
            return z3.BoolVal(False)
        if t == "()":
            return UNIT
        if t.startswith("'"):
            return Int(ord(parse_char_lit(t)), "char")
        if t.startswith('"'):
            s = parse_str_lit(t)
            return Slice([Int(b, "u8") for b in s], "str")
        if t.startswith('b"'):
            s = parse_bytes_lit(t[1:])
            return Ref(Cell(VecV([Int(b, "u8") for b in s], "array"), "bytes-const"))
        mi = re.fullmatch(r"((core|std)::)?(u8|i8|u16|i16|u32|i32|u64|i64|u128|i128|usize|isize)::(MAX|MIN|BITS)", t)
        if mi:
            ity, what = mi.group(3), mi.group(4)
            w = INT_W[ity]
            if what == "BITS":
                return Int(w, "u32")
            if is_signed(ity):
                return Int(((1 << (w - 1)) - 1) if what == "MAX" else (1 << (w - 1)), ity)
            return Int(((1 << w) - 1) if what == "MAX" else 0, ity)
        m = re.fullmatch(r"([\w:<>, ]+?)::<.*>::(\w+)", t) or re.fullmatch(r"([\w:]+)::(\w+)", t)
        # named constant of the crate
        cv = self.lookup_const(fr, t)
        if cv is not None:
            return cv
        if m:
            base = enum_base(m.group(1))
            if base in self.enum_discr and m.group(2) in self.enum_discr[base]:
                return Adt(base, m.group(2))
        mz = re.fullmatch(r"ZeroSized: (.*)", t)
        if mz:
            if mz.group(1).startswith("{closure@"):
                return Tup((), name=mz.group(1))
            return Opaque("zst:" + mz.group(1))
        if t.startswith("{closure@") or t.startswith("ZeroSized"):
            return Tup((), name=t)
        if "PhantomData" in t:
            return Opaque("phantom")
        # function item
        if re.match(r"^[<\w]", t) and "(" not in t.split("::")[-1]:
            return FnItem(t)
        raise Inconclusive("constant `%s` in %s" % (t, fr.fn.name if fr else "?"))

    def lookup_const(self, fr, name):
        if self.const_overrides:
            tail0 = name.split("::")[-1]
            if tail0 in self.const_overrides:
                return self.const_overrides[tail0]
        for pr in self.progs:
            cands = []
            if name in pr.consts:
                cands.append(pr.consts[name])
            else:
                tail = name.split("::")[-1]
                for k, v in pr.consts.items():
                    if k == tail or k.endswith("::" + tail) and (name.endswith(k) or k.endswith(name)):
                        cands.append(v)
            if len(cands) == 1:
                ty, val = cands[0]
                if val.startswith("const "):
                    return self.const(None, None, val[6:])
            # const with a body (promoted / computed)
            f = pr.fns.get(name)
            if f is None:
                segs = P.split_path(name)
                for k in range(1, len(segs) - 1):
                    f = pr.fns.get("::".join(segs[k:]))
                    if f is not None:
                        break
            if f is None:
                tail = name.split("::")[-1]
                cf = [g for g in pr.order if g.kind == "const" and (g.name == tail or g.name.endswith("::" + tail))
                      and (name.endswith(g.name) or g.name.endswith(name))]
                if len(cf) == 1:
                    f = cf[0]
            if f is not None and f.kind == "const":
                ex = Explorer()
                return self.run_fn(Ctx(ex, ()), f, [])
        return None

    # -- rvalues
    def rvalue(self, ctx, fr, rv, dest=None):
        k = rv[0]
        if k == "use":
            return self.operand(ctx, fr, rv[1])
        if k == "ref" or k == "rawptr":
            l = self.loc(ctx, fr, rv[2])
            if l.val is not None:
                return l.val if isinstance(l.val, (Slice, Ref)) else Ref(Cell(l.val, "tmp"))
            # &*slice-ref / &*str: keep fat pointers as values
            v = None
            if not l.path or True:
                try:
                    v = get_path(l.cell.v, l.path) if l.cell.v is not None else None
                except (Inconclusive, IndexError):
                    v = None
            return Ref(l.cell, l.path)
        if k == "binop":
            a = self.operand(ctx, fr, rv[2])
            b = self.operand(ctx, fr, rv[3])
            return binop(rv[1], a, b)
        if k == "unop":
            a = self.operand(ctx, fr, rv[2])
            return self.unop(rv[1], a)
        if k == "cast":
            a = self.operand(ctx, fr, rv[1])
            return self.cast(a, rv[2], rv[3])
        if k == "discr":
            v = self.read_loc(self.loc(ctx, fr, rv[1]))
            d = self.discriminant(v)
            if dest is not None and not dest.projs:
                ty = fr.fn.locals.get(dest.local)
                if ty in INT_W and ty != d.ty:
                    d = int_cast(Int(d.t, "isize"), ty)
            return d
        if k == "len":
            v = self.read_loc(self.loc(ctx, fr, rv[1]))
            return Int(len(v.elems), "usize")
        if k == "aggregate":
            return self.aggregate(ctx, fr, rv, dest)
        if k == "repeat":
            v = self.operand(ctx, fr, rv[1])
            n = self.const_usize(fr, rv[2])
            return VecV([v] * n, "array")
        if k == "nullop":
            if rv[1] in ("UbChecks", "ContractChecks"):
                return z3.BoolVal(False)
        raise Inconclusive("rvalue %r" % (rv,))

    def const_usize(self, fr, txt):
        t = txt.strip()
        if t.startswith("const "):
            t = t[6:]
        m = re.fullmatch(r"(\d+)(_usize)?", t)
        if m:
            return int(m.group(1))
        v = self.lookup_const(fr, t)
        if isinstance(v, Int) and v.conc() is not None:
            return v.conc()
        raise Inconclusive("array length " + txt)

    def discriminant(self, v):
        if isinstance(v, Adt):
            base = enum_base(v.name)
            tbl = self.enum_discr.get(base) or self.enum_discr.get(v.name)
            if tbl is None or v.variant not in tbl:
                raise Inconclusive("discriminant of %s::%s unknown" % (v.name, v.variant))
            return Int(tbl[v.variant] & ((1 << 64) - 1), "isize")
        if isinstance(v, Int):
            return Int(z3.ZeroExt(64 - v.w, v.t) if v.w < 64 else v.t, "isize")
        raise Inconclusive("discriminant of %r" % (v,))

    def unop(self, op, a):
        if op == "Not":
            if z3.is_expr(a) and z3.is_bool(a):
                return z3.Not(a)
            return Int(~a.t, a.ty)
        if op == "Neg":
            return Int(-a.t, a.ty)
        if op == "PtrMetadata":
            if isinstance(a, Ref):
                a = get_path(a.cell.v, a.path)
            if isinstance(a, (Slice, VecV)):
                return Int(len(a.elems), "usize")
            if isinstance(a, Tup) and a.name == "StealerSlice":
                return Int(len(a.fields), "usize")
            if isinstance(a, Opaque):
                raise Inconclusive("length of an opaque slice %r" % (a,))
            return UNIT
        raise Inconclusive("unop " + op)

    def cast(self, a, ty, kind):
        ty = ty.strip()
        if kind in ("IntToInt",):
            if z3.is_expr(a) and z3.is_bool(a):
                a = Int(z3.If(a, z3.BitVecVal(1, 8), z3.BitVecVal(0, 8)), "u8")
            if isinstance(a, Adt):
                a = self.discriminant(a)
            if ty not in INT_W:
                raise Inconclusive("cast to " + ty)
            return int_cast(a, ty)
        if kind.startswith("PointerCoercion") or kind in ("PtrToPtr", "Transmute", "FnPtrToPtr"):
            # unsizing &[T; N] -> &[T], &String -> … : values keep their shape
            if kind.startswith("PointerCoercion") and isinstance(a, Ref):
                v = get_path(a.cell.v, a.path) if a.cell.v is not None else None
                if isinstance(v, VecV) and v.kind == "array" and ("[" in ty and ";" not in ty):
                    if ty.startswith("&mut") or ty.startswith("*mut"):
                        return a
                    return Slice(v.elems, "slice")
            if kind == "Transmute" and isinstance(a, Int) and ty in INT_W and INT_W[ty] == a.w:
                return Int(a.t, ty)
            return a
        raise Inconclusive("cast kind %s to %s" % (kind, ty))

    def aggregate(self, ctx, fr, rv, dest=None):
        _, kind, name, fields = rv
        vals = [self.operand(ctx, fr, f[1]) for f in fields]
        if kind == "tuple":
            return Tup(vals)
        if kind == "array":
            return VecV(vals, "array")
        if kind == "closure":
            return Tup(vals, name=name, fnames=[f[0] for f in fields])
        if kind == "struct":
            return Tup(vals, name=P.strip_generics(name), fnames=[f[0] for f in fields])
        if kind == "adt":
            nm = P.strip_generics(name)
            parts = P.split_path(nm)
            if len(parts) >= 2:
                base = enum_base("::".join(parts[:-1]))
                if base in self.enum_discr and parts[-1] in self.enum_discr[base]:
                    return Adt(base, parts[-1], vals)
            # a variant of an enum of another crate prints as the bare variant name: use the destination's type
            if len(parts) == 1 and dest is not None and not dest.projs:
                base = enum_base(fr.fn.locals.get(dest.local, ""))
                if base in self.enum_discr and parts[0] in self.enum_discr[base]:
                    return Adt(base, parts[0], vals)
            # tuple struct / unit struct
            return Tup(vals, name=nm)
        raise Inconclusive("aggregate " + kind)


# ------------------------------------------------------------------------------------------
# helpers

_IT = r"<(std|core)::(slice::Iter|iter::\w+)<.*> as Iterator>"
STD_REDIRECTS = [
    (re.compile(r"<.* as Iterator>::filter"), "drv_iter_filter"),
    (re.compile(r"<.* as Iterator>::map"), "drv_iter_map"),
    (re.compile(r"<(std::iter::)?Filter<.*> as Iterator>::count|<DrvFilter<.*> as Iterator>::count|<adaptors::DrvFilter<.*> as Iterator>::count"), "drv_filter_count"),
    (re.compile(r"<(std::iter::)?Filter<.*> as Iterator>::next"), "drv_filter_next"),
    (re.compile(r"<(std::iter::)?Map<.*> as Iterator>::next"), "drv_map_next"),
    (re.compile(r"<.* as Iterator>::enumerate"), "drv_iter_enumerate"),
    (re.compile(r"<.* as Iterator>::take_while"), "drv_iter_take_while"),
    (re.compile(r"<.* as Iterator>::skip"), "drv_iter_skip"),
    (re.compile(r"<.* as Iterator>::take"), "drv_iter_take"),
    (re.compile(r"<.* as Iterator>::zip"), "drv_iter_zip"),
    (re.compile(r"<.* as Iterator>::chain"), "drv_iter_chain"),
    (re.compile(r"<(std::iter::)?Enumerate<.*> as Iterator>::next"), "drv_enumerate_next"),
    (re.compile(r"<(std::iter::)?TakeWhile<.*> as Iterator>::next"), "drv_take_while_next"),
    (re.compile(r"<(std::iter::)?Skip<.*> as Iterator>::next"), "drv_skip_next"),
    (re.compile(r"<(std::iter::)?Take<.*> as Iterator>::next"), "drv_take_next"),
    (re.compile(r"<(std::iter::)?Zip<.*> as Iterator>::next"), "drv_zip_next"),
    (re.compile(r"<(std::iter::)?Chain<.*> as Iterator>::next"), "drv_chain_next"),
    (re.compile(r"<.* as Iterator>::position"), "drv_iter_position"),
    (re.compile(r"<.* as Iterator>::find"), "drv_iter_find"),
    (re.compile(r"<.* as Iterator>::find_map"), "drv_iter_find_map"),
    (re.compile(r"<.* as Iterator>::fold"), "drv_iter_fold"),
    (re.compile(r"<.* as Iterator>::last"), "drv_iter_last"),
    (re.compile(r"<.* as Iterator>::nth"), "drv_iter_nth"),
    (re.compile(r"(core::)?slice::<impl \[.*\]>::partition_point"), "drv_slice_partition_point"),
    (re.compile(r"<.* as Iterator>::count"), "drv_iter_count"),
    (re.compile(r"<.* as Iterator>::any"), "drv_iter_any"),
    (re.compile(r"<.* as Iterator>::all"), "drv_iter_all"),
    (re.compile(r"<.* as Iterator>::for_each"), "drv_iter_for_each"),
]


def canon_callee(name):
    s = name.strip()
    s = P.strip_generics(s)
    s = re.sub(r"<'[\w_]+>", "", s)            # lifetimes-only generic lists
    s = re.sub(r"'[\w_]+,\s*", "", s)
    s = re.sub(r"&'[\w_]+ ", "&", s)
    return s


def as_bool(v):
    if z3.is_expr(v) and z3.is_bool(v):
        return v
    if isinstance(v, Int):
        return v.t != 0
    raise Inconclusive("bool expected, got %r" % (v,))


def int_cast(a, ty):
    w0, w1 = a.w, INT_W[ty]
    if w1 == w0:
        return Int(a.t, ty)
    if w1 < w0:
        return Int(z3.Extract(w1 - 1, 0, a.t), ty)
    if is_signed(a.ty):
        return Int(z3.SignExt(w1 - w0, a.t), ty)
    return Int(z3.ZeroExt(w1 - w0, a.t), ty)


def binop(op, a, b):
    if z3.is_expr(a) and z3.is_bool(a):
        if not (z3.is_expr(b) and z3.is_bool(b)):
            raise Inconclusive("bool binop with %r" % (b,))
        if op == "Eq": return a == b
        if op == "Ne": return a != b
        if op == "BitAnd": return z3.And(a, b)
        if op == "BitOr": return z3.Or(a, b)
        if op == "BitXor": return z3.Xor(a, b)
        if op == "Lt": return z3.And(z3.Not(a), b)
        if op == "Le": return z3.Or(z3.Not(a), b)
        if op == "Gt": return z3.And(a, z3.Not(b))
        if op == "Ge": return z3.Or(a, z3.Not(b))
        raise Inconclusive("bool binop " + op)
    if isinstance(a, Adt) and isinstance(b, Adt):
        if op in ("Eq", "Ne"):
            r = a.variant == b.variant and not a.fields and not b.fields
            if a.fields or b.fields:
                raise Inconclusive("enum compare with payload")
            return z3.BoolVal(r if op == "Eq" else not r)
    if isinstance(a, Ref) and isinstance(b, Ref) and op in ("Eq", "Ne"):
        same = a.cell is b.cell and a.path == b.path
        return z3.BoolVal(same if op == "Eq" else not same)
    if not isinstance(a, Int) or not isinstance(b, Int):
        raise Inconclusive("binop %s on %r, %r" % (op, a, b))
    ty, w, s = a.ty, a.w, is_signed(a.ty)
    x, y = a.t, b.t
    if op in ("Shl", "Shr", "ShlUnchecked", "ShrUnchecked"):
        # shift amount may have another width: wrap to the value width (mask semantics are
        # guarded in MIR by a preceding assert on `amount < bits`)
        if b.w < w:
            y = z3.ZeroExt(w - b.w, y)
        elif b.w > w:
            y = z3.Extract(w - 1, 0, y)
        y = y & z3.BitVecVal(w - 1, w)
        if op.startswith("Shl"):
            return Int(x << y, ty)
        return Int((x >> y) if s else z3.LShR(x, y), ty)
    if b.w != w:
        raise Inconclusive("binop %s width mismatch %s %s" % (op, a.ty, b.ty))
    if op in ("Add", "AddUnchecked"): return Int(x + y, ty)
    if op in ("Sub", "SubUnchecked"): return Int(x - y, ty)
    if op in ("Mul", "MulUnchecked"): return Int(x * y, ty)
    if op == "Div": return Int((x / y) if s else z3.UDiv(x, y), ty)
    if op == "Rem": return Int(z3.SRem(x, y) if s else z3.URem(x, y), ty)
    if op == "BitXor": return Int(x ^ y, ty)
    if op == "BitAnd": return Int(x & y, ty)
    if op == "BitOr": return Int(x | y, ty)
    if op == "Eq": return x == y
    if op == "Ne": return x != y
    if op == "Lt": return (x < y) if s else z3.ULT(x, y)
    if op == "Le": return (x <= y) if s else z3.ULE(x, y)
    if op == "Gt": return (x > y) if s else z3.UGT(x, y)
    if op == "Ge": return (x >= y) if s else z3.UGE(x, y)
    if op == "AddWithOverflow":
        r = x + y
        if s:
            ov = z3.Not(z3.And(z3.BVAddNoOverflow(x, y, True), z3.BVAddNoUnderflow(x, y)))
        else:
            ov = z3.Not(z3.BVAddNoOverflow(x, y, False))
        return Tup((Int(r, ty), ov))
    if op == "SubWithOverflow":
        r = x - y
        if s:
            ov = z3.Not(z3.And(z3.BVSubNoOverflow(x, y), z3.BVSubNoUnderflow(x, y, True)))
        else:
            ov = z3.ULT(x, y)
        return Tup((Int(r, ty), ov))
    if op == "MulWithOverflow":
        r = x * y
        if s:
            ov = z3.Not(z3.And(z3.BVMulNoOverflow(x, y, True), z3.BVMulNoUnderflow(x, y)))
        else:
            ov = z3.Not(z3.BVMulNoOverflow(x, y, False))
        return Tup((Int(r, ty), ov))
    if op == "Cmp":
        lt = (x < y) if s else z3.ULT(x, y)
        return Opaque("ordering", (lt, x == y))
    raise Inconclusive("binop " + op)


def parse_char_lit(t):
    body = t[1:-1]
    return _unescape(body)[0]


def _unescape(body):
    out, i = [], 0
    while i < len(body):
        c = body[i]
        if c != "\\":
            out.append(c); i += 1; continue
        n = body[i + 1]
        if n == "n": out.append("\n"); i += 2
        elif n == "r": out.append("\r"); i += 2
        elif n == "t": out.append("\t"); i += 2
        elif n == "0": out.append("\0"); i += 2
        elif n == "\\": out.append("\\"); i += 2
        elif n == "'": out.append("'"); i += 2
        elif n == '"': out.append('"'); i += 2
        elif n == "x":
            out.append(chr(int(body[i + 2:i + 4], 16))); i += 4
        elif n == "u":
            j = body.index("}", i)
            out.append(chr(int(body[i + 3:j], 16))); i = j + 1
        else:
            raise Inconclusive("escape \\" + n)
    return out


def parse_str_lit(t):
    return "".join(_unescape(t[1:-1])).encode("utf-8")


def parse_bytes_lit(t):
    # \xNN are raw bytes here
    body = t[1:-1]
    out, i = [], 0
    while i < len(body):
        c = body[i]
        if c != "\\":
            out.extend(c.encode("utf-8")); i += 1; continue
        n = body[i + 1]
        if n == "x":
            out.append(int(body[i + 2:i + 4], 16)); i += 4
        else:
            out.extend("".join(_unescape(body[i:i + 2])).encode("latin-1")); i += 2
    return bytes(out)
