//! C03 (collector kernels): `verif-native gck <sub> …` runs the REAL header-word / TLAB / alignment / Region /
//! array-size / ObjectHashMap code of the working tree on concrete inputs.  The items are private to dora-runtime;
//! their source text is cut out verbatim at build time (src/gck_build.rs) and compiled in shim modules.
//! All numbers are decimal u64 on the command line and in the output.
use std::sync::mpsc;
use std::time::Duration;

include!(concat!(env!("OUT_DIR"), "/gck_gen.rs"));

pub fn num(s: &str) -> usize {
    if let Some(h) = s.strip_prefix("0x") { usize::from_str_radix(h, 16).unwrap() } else { s.parse::<u64>().unwrap() as usize }
}

fn b(x: bool) -> usize { x as usize }

fn tlab(a: &[usize]) {
    // tlab <top> <end> <size>…   : tlab_initialize(top,end); then allocate(size) for each size
    use gen::gc::Address;
    let t = gen::threads::current_thread();
    t.tld.tlab_initialize(Address::from(a[0]), Address::from(a[1]));
    println!("rest0={}", t.tld.tlab_rest());
    for (i, size) in a[2..].iter().enumerate() {
        match gen::tlab::allocate(*size) {
            Some(x) => println!("r{}={}", i + 1, x.to_usize()),
            None => println!("r{}=None", i + 1),
        }
        let r = t.tld.tlab_region();
        println!("top{}={}", i + 1, r.start.to_usize());
        println!("end{}={}", i + 1, r.end.to_usize());
        println!("rest{}={}", i + 1, t.tld.tlab_rest());
    }
}

fn align(f: &str, a: &[usize]) {
    use gen::{mem, swiper};
    match f {
        "align_usize_up" => println!("ret={}", mem::align_usize_up(a[0], a[1])),
        "align_i32" => println!("ret={}", mem::align_i32(a[0] as u32 as i32, a[1] as u32 as i32) as u32),
        "is_word_aligned" => println!("ret={}", b(mem::is_word_aligned(a[0]))),
        "is_power_of_2_aligned" => println!("ret={}", b(mem::is_power_of_2_aligned(a[0], a[1]))),
        "is_os_page_aligned" => println!("ret={}", b(mem::is_os_page_aligned(a[0]))),
        "os_page_align_up" => println!("ret={}", mem::os_page_align_up(a[0])),
        "fits_i32" => println!("ret={}", b(mem::fits_i32(a[0] as i64))),
        "ptr_width" => println!("ret={}", mem::ptr_width()),
        "ptr_width_usize" => println!("ret={}", mem::ptr_width_usize()),
        "align_page_up" => println!("ret={}", swiper::align_page_up(a[0])),
        "align_page_down" => println!("ret={}", swiper::align_page_down(a[0])),
        "is_page_aligned" => println!("ret={}", b(swiper::is_page_aligned(a[0]))),
        _ => println!("unknown_op=1"),
    }
}

fn addr(f: &str, a: &[usize]) {
    use gen::gc::Address;
    let x = Address::from(a[0]);
    match f {
        "offset" => println!("ret={}", x.offset(a[1]).to_usize()),
        "offset_from" => println!("ret={}", x.offset_from(Address::from(a[1]))),
        "ioffset" => println!("ret={}", x.ioffset(a[1] as isize).to_usize()),
        "sub" => println!("ret={}", x.sub(a[1]).to_usize()),
        "add_ptr" => println!("ret={}", x.add_ptr(a[1]).to_usize()),
        "sub_ptr" => println!("ret={}", x.sub_ptr(a[1]).to_usize()),
        "is_null" => println!("ret={}", b(x.is_null())),
        "is_non_null" => println!("ret={}", b(x.is_non_null())),
        "is_page_aligned" => println!("ret={}", b(x.is_page_aligned())),
        "align_page_up" => println!("ret={}", x.align_page_up().to_usize()),
        "is_os_page_aligned" => println!("ret={}", b(x.is_os_page_aligned())),
        "is_power_of_2_aligned" => println!("ret={}", b(x.is_power_of_2_aligned(a[1]))),
        "lt" => println!("ret={}", b(x < Address::from(a[1]))),
        "le" => println!("ret={}", b(x <= Address::from(a[1]))),
        "region_start" => { let r = x.region_start(a[1]); println!("ret={},{}", r.start.to_usize(), r.end.to_usize()); }
        _ => println!("unknown_op=1"),
    }
}

fn region(f: &str, a: &[usize]) {
    // region <fn> <start> <end> [<addr> | <start2> <end2>]
    use gen::gc::{Address, Region};
    let r = Region::new(Address::from(a[0]), Address::from(a[1]));
    let other = || Region::new(Address::from(a[2]), Address::from(a[3]));
    match f {
        "all" => {
            println!("start={}", r.start().to_usize());
            println!("end={}", r.end().to_usize());
            println!("contains={}", b(r.contains(Address::from(a[2]))));
            println!("valid_top={}", b(r.valid_top(Address::from(a[2]))));
            println!("size={}", r.size());
            println!("empty={}", b(r.empty()));
        }
        "pairs" => {
            println!("disjunct={}", b(r.disjunct(&other())));
            println!("overlaps={}", b(r.overlaps(&other())));
            println!("fully={}", b(r.fully_contains(&other())));
        }
        "new" => println!("ret={},{}", r.start().to_usize(), r.end().to_usize()),
        "contains" => println!("ret={}", b(r.contains(Address::from(a[2])))),
        "valid_top" => println!("ret={}", b(r.valid_top(Address::from(a[2])))),
        "size" => println!("ret={}", r.size()),
        "empty" => println!("ret={}", b(r.empty())),
        "disjunct" => println!("ret={}", b(r.disjunct(&other()))),
        "overlaps" => println!("ret={}", b(r.overlaps(&other()))),
        "fully_contains" => println!("ret={}", b(r.fully_contains(&other()))),
        _ => println!("unknown_op=1"),
    }
}

fn table(args: &[String]) {
    // table <k:v,k:v,…|-> <entries[/tombstones]> <gc_epoch> <runtime epoch> <op>…
    let slots: Vec<(usize, u64)> = if args[0] == "-" { Vec::new() } else {
        args[0].split(',').map(|kv| { let p: Vec<&str> = kv.split(':').collect(); (num(p[0]), num(p[1]) as u64) }).collect()
    };
    // <entries> or <entries>/<tombstones> (the second only matters for trees whose table counts tombstones)
    let et: Vec<&str> = args[1].split('/').collect();
    let (entries, tombstones) = (num(et[0]), if et.len() > 1 { num(et[1]) } else { 0 });
    let (epoch, rt_epoch) = (num(&args[2]), num(&args[3]));
    let ops: Vec<String> = args[4..].to_vec();
    // probing may not terminate (no EMPTY slot): run on a worker, report hang=1 instead of blocking the caller
    let (tx, rx) = mpsc::channel();
    std::thread::spawn(move || {
        let r = std::panic::catch_unwind(move || gen::waitlists::gck_table(&slots, entries, tombstones, epoch, rt_epoch, &ops));
        if let Err(e) = r {
            let msg = if let Some(s) = e.downcast_ref::<String>() { s.clone() } else if let Some(s) = e.downcast_ref::<&str>() { s.to_string() } else { "?".to_string() };
            println!("panic={}", msg.replace('\n', " "));
        }
        let _ = tx.send(());
    });
    if rx.recv_timeout(Duration::from_secs(10)).is_err() {
        println!("hang=1");
        std::process::exit(0);
    }
}

pub fn gck(args: &[String]) {
    // the panic message travels in the payload; symbolising a backtrace of this binary can take seconds
    std::panic::set_hook(Box::new(|_| {}));
    let sub = args[0].as_str();
    let nums = |from: usize| -> Vec<usize> { args[from..].iter().map(|s| num(s)).collect() };
    match sub {
        "hdr" => gen::mirror::gck_hdr(&args[1], &nums(2)),
        "tlab" => tlab(&nums(1)),
        "align" => align(&args[1], &nums(2)),
        "addr" => addr(&args[1], &nums(2)),
        "region" => region(&args[1], &nums(2)),
        "arraysize" => { let a = nums(1); println!("ret={}", gen::mirror::gck_array_size(a[0], a[1])); }
        "table" => table(&args[1..]),
        "batch" => {
            // one command per stdin line (without the leading `gck`); results separated by `--` lines
            use std::io::BufRead;
            for line in std::io::stdin().lock().lines() {
                let a: Vec<String> = line.unwrap().split_whitespace().map(|s| s.to_string()).collect();
                if a.is_empty() { continue; }
                let r = std::panic::catch_unwind(move || gck(&a));
                if let Err(e) = r {
                    let msg = if let Some(s) = e.downcast_ref::<String>() { s.clone() } else if let Some(s) = e.downcast_ref::<&str>() { s.to_string() } else { "?".to_string() };
                    println!("panic={}", msg.replace('\n', " "));
                }
                println!("--");
            }
        }
        "consts" => {
            println!("max_tlab_object_size={}", gen::tlab::MAX_TLAB_OBJECT_SIZE);
            println!("page_size={}", gen::swiper::PAGE_SIZE);
            println!("remembered_bit_shift={}", gen::mirror::REMEMBERED_BIT_SHIFT);
        }
        _ => println!("unknown_command=1"),
    }
}
