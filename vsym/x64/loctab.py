"""AOT metadata tables of the `.s` file, decoded the way the runtime decodes them, and the
lookup "return address -> stack trace lines" mirrored from the runtime.

Runtime side (read on 2026-09-23 in the working tree; the check re-verifies the struct shapes
textually on every run, see `verify_layout`):
  * dora-runtime/src/stdlib.rs `trap`: prints the message, `stacktrace_from_last_dtn`, exits
    with 101 + kind.
  * dora-runtime/src/stack.rs: the trap trampoline's own frame yields no entry; the first entry
    is the *return address* found at [fp+8] of the trampoline frame = offset of the instruction
    after the `call dora_aot_trap_trampoline`, relative to the function's first instruction.
    `dump_stack_elem`: `code.location_for_offset(offset)` (exact match in the location table,
    dora-compiler/src/lib.rs `LocationTable::get`); while the location is inlined, print
    `inlined_function.name (file:loc)` and continue with the inlined function's call-site
    location; finally print `function.name (file:loc)`; without an entry the function's own
    declaration location is used.
  * dora-runtime/src/startup.rs `initialize_code_map`: `.dora.functions` entries (two quads +
    ten longs) slice `.dora.locations` (pc_offset, inlined id | 0xFFFFFFFF, line, column) and
    `.dora.inlined_functions` (function_info idx, parent inlined id | 0xFFFFFFFF, call-site
    line, column); `.dora.function_info` = (name string idx, file string idx, line, column);
    `.dora.strings` = (pointer, length) into `.rodata`.
"""
import os
import re

from .. import common
from ..common import Inconclusive

NO_INLINED = 0xFFFFFFFF

EXPECTED_STRUCTS = {
    "AotFunctionEntry": ["code_start", "code_end", "fct_id", "kind", "function_info_idx", "gcpoints_start", "gcpoints_len",
                         "locations_start", "locations_len", "inlined_functions_start", "inlined_functions_len", "_padding"],
    "AotFunctionInfoEntry": ["name_idx", "file_idx", "line", "column"],
    "AotLocationEntry": ["pc_offset", "inlined_function_id", "line", "column"],
    "AotInlinedFunctionEntry": ["function_info_idx", "inlined_function_id", "line", "column"],
    "AotStringEntry": ["data_ptr", "len"],
}


def verify_layout():
    """the field order of the #[repr(C)] entry structs in dora-runtime/src/startup.rs must be the
    one this decoder assumes, and the lookup must still be an exact match on the offset"""
    src = open(os.path.join(common.REPO, "dora-runtime/src/startup.rs")).read()
    for name, fields in EXPECTED_STRUCTS.items():
        m = re.search(r"#\[repr\(C\)\][^{]*?pub struct %s\s*\{(.*?)\n\}" % name, src, re.S)
        if not m:
            raise Inconclusive("AOT metadata: struct %s not found in dora-runtime/src/startup.rs" % name)
        got = re.findall(r"pub (\w+)\s*:", m.group(1))
        if got != fields:
            raise Inconclusive("AOT metadata: layout of %s changed (%s), the decoder of vsym/x64/loctab.py must be updated" % (name, got))
    lib = open(os.path.join(common.REPO, "dora-compiler/src/lib.rs")).read()
    if not re.search(r"binary_search_by_key\(&offset", lib):
        raise Inconclusive("LocationTable::get is no longer an exact-match binary search")
    st = open(os.path.join(common.REPO, "dora-runtime/src/stack.rs")).read()
    if "let ra = unsafe { *((fp + 8) as *const usize) };" not in st or "CodeKind::TrapTrampoline => true" not in st:
        raise Inconclusive("dora-runtime/src/stack.rs: frame walk differs from the modelled one")


def _longs(entries):
    return [int(a, 0) for d, a in entries if d == ".long"]


class LocTab:
    def __init__(self, asm):
        self.asm = asm
        sec = asm.sections
        for need in (".dora.functions", ".dora.locations", ".dora.function_info", ".dora.inlined_functions", ".dora.strings"):
            if need not in sec:
                raise Inconclusive("AOT metadata: section %s missing from %s" % (need, asm.path))
        # strings
        se = [a for d, a in sec[".dora.strings"] if d == ".quad"]
        if len(se) % 2:
            raise Inconclusive("AOT metadata: odd .dora.strings table")
        self.strings = []
        for i in range(0, len(se), 2):
            label, ln = se[i], int(se[i + 1], 0)
            data = bytearray()
            for d, a in asm.data.get(label, []):
                if d == ".byte":
                    data.extend(int(x, 0) for x in a.split(",") if x.strip())
            self.strings.append(bytes(data[:ln]).decode("utf-8", "replace"))
        fi = _longs(sec[".dora.function_info"])
        self.function_info = [tuple(fi[i:i + 4]) for i in range(0, len(fi), 4)]
        lo = _longs(sec[".dora.locations"])
        self.locations = [tuple(lo[i:i + 4]) for i in range(0, len(lo), 4)]
        il = _longs(sec[".dora.inlined_functions"])
        self.inlined = [tuple(il[i:i + 4]) for i in range(0, len(il), 4)]
        self.functions = {}
        ents = sec[".dora.functions"]
        i = 0
        while i < len(ents):
            if ents[i][0] != ".quad" or i + 12 > len(ents) or ents[i + 1][0] != ".quad" or any(e[0] != ".long" for e in ents[i + 2:i + 12]):
                raise Inconclusive("AOT metadata: unexpected shape of .dora.functions at entry %d" % i)
            sym = ents[i][1]
            vals = [int(e[1], 0) for e in ents[i + 2:i + 12]]
            self.functions[sym] = dict(zip(EXPECTED_STRUCTS["AotFunctionEntry"][2:], vals))
            i += 12

    def info(self, idx):
        name_idx, file_idx, line, col = self.function_info[idx]
        return self.strings[name_idx], self.strings[file_idx], line, col

    def frames(self, func_symbol, offset):
        """stack trace lines the runtime prints for a return address at `offset` inside the
        function: [(function name, file, line, column)], innermost first"""
        f = self.functions.get(func_symbol)
        if f is None:
            raise Inconclusive("AOT metadata: no .dora.functions entry for " + func_symbol)
        name, file, dline, dcol = self.info(f["function_info_idx"])
        locs = self.locations[f["locations_start"]:f["locations_start"] + f["locations_len"]]
        inl = self.inlined[f["inlined_functions_start"]:f["inlined_functions_start"] + f["inlined_functions_len"]]
        hit = [e for e in locs if e[0] == offset]
        out = []
        if not hit:
            return [(name, file, dline, dcol)], {"entry": None, "inlined_depth": 0}
        _, iid, line, col = hit[0]
        depth = 0
        while iid != NO_INLINED:
            if iid >= len(inl):
                raise Inconclusive("AOT metadata: inlined function id %d out of range in %s" % (iid, func_symbol))
            fidx, parent, cl, cc = inl[iid]
            iname, ifile, _, _ = self.info(fidx)
            out.append((iname, ifile, line, col))
            iid, line, col = parent, cl, cc
            depth += 1
            if depth > 64:
                raise Inconclusive("AOT metadata: inlining chain does not end")
        out.append((name, file, line, col))
        return out, {"entry": hit[0], "inlined_depth": depth}

    def trap_sites(self, func_symbol, trap_symbol="dora_aot_trap_trampoline"):
        """offsets of the calls to the trap trampoline inside a function (from the relocations)"""
        f = self.asm.funcs[func_symbol]
        return sorted(off - 1 for off, (ty, target, add) in f.relocs.items() if target == trap_symbol)


_FRAME = re.compile(r"^\s+(.+?) \((.*):(\d+):(\d+)\)\s*$")


def parse_trace(stderr_text):
    """stderr of a trapping run -> (message, [(function, file, line, column)])"""
    lines = stderr_text.split("\n")
    msg = lines[0].strip() if lines else ""
    frames = []
    for l in lines[1:]:
        m = _FRAME.match(l)
        if m:
            frames.append((m.group(1), m.group(2), int(m.group(3)), int(m.group(4))))
    return msg, frames
