"""Process pool for per-kernel work (z3 objects never cross process boundaries: workers return
plain JSON-able data)."""
import multiprocessing
import os
import traceback


def njobs():
    try:
        n = int(os.environ.get("VERIF_JOBS", "16"))
    except ValueError:
        n = 16
    return max(1, min(n, (os.cpu_count() or 4)))


def _wrap(args):
    fn, job = args
    try:
        return ("ok", fn(job))
    except Exception as e:                      # reported per job; the caller decides
        return ("err", "%s: %s\n%s" % (type(e).__name__, e, traceback.format_exc()[-1500:]))


def run_jobs(fn, jobs, n=None):
    """fn must be a module level function.  -> list of ('ok', result) | ('err', text) in job order"""
    n = n or njobs()
    jobs = list(jobs)
    if n == 1 or len(jobs) <= 1:
        return [_wrap((fn, j)) for j in jobs]
    ctx = multiprocessing.get_context("fork")
    with ctx.Pool(min(n, len(jobs)), maxtasksperchild=8) as pool:
        return pool.map(_wrap, [(fn, j) for j in jobs], chunksize=1)
