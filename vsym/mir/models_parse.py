"""std models for the parser entry of dora-parser (stretch part of C06/C16).  Own list MODELS_PARSE.

Contracts: `Arc<T>` / `Box<T>` are a pointer to an immutable cell (`Arc::new`, `clone`, `Deref`); reference counts are
not modelled (no `Arc::get_mut`/`try_unwrap`/`strong_count` in the code reached).  `String::from(&str)`, `str::to_string`,
`<&str as Into<String>>::into` copy the bytes.  `SmolStr::new(&str)` is the byte sequence.  `Vec<T>::into_iter()` /
`IntoIter::next` / `Rev<IntoIter>` walk a concrete-length vector front to back / back to front; `Iterator::rev` of such an
iterator reverses the remaining elements.  `Range<usize>::into_iter/next` with concrete bounds.
"""
import re

import z3

from ..common import Inconclusive
from .interp import Adt, Cell, Int, Opaque, Panic, Ref, Slice, Tup, UNIT, VecV, get_path
from .models import NONE, deref, elems_of, some, usize, write_ref

MODELS_PARSE = []


def model(pat):
    def deco(fn):
        MODELS_PARSE.append((re.compile(pat), fn))
        return fn
    return deco


@model(r"<String as From<&str>>::from|<str as ToString>::to_string|<&str as Into<String>>::into|<str as ToOwned>::to_owned|String::from_str|<String as From<&String>>::from")
def m_string_from(it, ctx, callee, args):
    return VecV(elems_of(args[0]), "string")


@model(r"(std::sync::)?Arc::new|(std::boxed::)?Box::new|(std::rc::)?Rc::new")
def m_arc_new(it, ctx, callee, args):
    return Opaque("box", Ref(Cell(args[0], "arc")))


@model(r"<(Arc|Rc|Box)<.*> as (std::ops::|core::ops::)?Deref>::deref")
def m_arc_deref(it, ctx, callee, args):
    a = deref(args[0])
    if not (isinstance(a, Opaque) and a.what == "box"):
        raise Inconclusive("Arc::deref of %r" % (a,))
    return a.payload


@model(r"<(Arc|Rc)<.*> as Clone>::clone")
def m_arc_clone(it, ctx, callee, args):
    return deref(args[0])


@model(r"(smol_str::)?SmolStr::(new|new_static|new_inline|from)|<(smol_str::)?SmolStr as From<&str>>::from")
def m_smolstr_new(it, ctx, callee, args):
    return VecV(elems_of(args[0]), "smolstr")


@model(r"<Vec<.*> as IntoIterator>::into_iter")
def m_vec_into_iter(it, ctx, callee, args):
    v = deref(args[0])
    if not isinstance(v, VecV):
        raise Inconclusive("into_iter of %r" % (v,))
    return Tup((Slice(v.elems), usize(0)), name="Iter:owned")


@model(r"<(std::vec::|alloc::vec::)?IntoIter<.*> as Iterator>::next")
def m_into_iter_next(it, ctx, callee, args):
    st = deref(args[0])
    if not (isinstance(st, Tup) and st.name == "Iter:owned"):
        raise Inconclusive("IntoIter state %r" % (st,))
    seq, pos = st.fields
    p = pos.conc()
    if p >= len(seq.elems):
        return NONE
    write_ref(args[0], Tup((seq, usize(p + 1)), name=st.name))
    return some(seq.elems[p])


@model(r"<(std::vec::|alloc::vec::)?IntoIter<.*> as Iterator>::rev|<.* as Iterator>::rev")
def m_rev(it, ctx, callee, args):
    st = args[0]
    if not (isinstance(st, Tup) and st.name in ("Iter:owned", "Iter:ref", "Iter:copied")):
        raise Inconclusive("rev of %r" % (st,))
    seq, pos = st.fields
    rest = seq.elems[pos.conc():]
    return Tup((Slice(tuple(reversed(rest))), usize(0)), name=st.name)


@model(r"<(std::iter::|core::iter::)?Rev<.*> as Iterator>::next")
def m_rev_next(it, ctx, callee, args):
    st = deref(args[0])
    seq, pos = st.fields
    p = pos.conc()
    if p >= len(seq.elems):
        return NONE
    write_ref(args[0], Tup((seq, usize(p + 1)), name=st.name))
    e = seq.elems[p]
    return some(Ref(Cell(e, "iter-elem")) if st.name == "Iter:ref" else e)


@model(r"<(std::ops::|core::ops::)?Range<usize> as Iterator>::next")
def m_range_next(it, ctx, callee, args):
    r = deref(args[0])
    a, b = r.fields
    if ctx.branch(z3.ULT(a.t, b.t)):
        write_ref(args[0], Tup((Int(a.t + 1, "usize"), b), name=r.name, fnames=r.fnames))
        return some(a)
    return NONE


@model(r"<Vec<.*> as (std::ops::|core::ops::)?Index<usize>>::index|<\[.*\] as (std::ops::|core::ops::)?Index<usize>>::index")
def m_vec_index(it, ctx, callee, args):
    el = elems_of(args[0])
    i = ctx.concretize(args[1], 0, len(el) + 1, "index")
    if i >= len(el):
        raise Panic("panic: index out of bounds: the len is %d but the index is %d" % (len(el), i))
    return Ref(Cell(el[i], "elem"))


@model(r"<(std::ops::|core::ops::)?Range<usize> as IntoIterator>::into_iter")
def m_range_into_iter(it, ctx, callee, args):
    return args[0]


@model(r"<Vec<.*> as (std::ops::|core::ops::)?IndexMut<usize>>::index_mut")
def m_vec_index_mut(it, ctx, callee, args):
    r = args[0]
    v = get_path(r.cell.v, r.path)
    while isinstance(v, Ref):
        r = v
        v = get_path(r.cell.v, r.path)
    if not isinstance(v, VecV):
        raise Inconclusive("index_mut of %r" % (v,))
    i = ctx.concretize(args[1], 0, len(v.elems) + 1, "index")
    if i >= len(v.elems):
        raise Panic("panic: index out of bounds: the len is %d but the index is %d" % (len(v.elems), i))
    return Ref(r.cell, r.path + (i,))
