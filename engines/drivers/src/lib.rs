#![allow(unused, dead_code, unreachable_code)]
pub mod c12;
pub mod c04;
pub mod c09;
pub mod c09_gen;
pub mod adaptors;
pub mod selftest;

/// opaque environment operations: bodies are never used, the checker binds python models to them
macro_rules! stub {
    ($(fn $name:ident($($a:ident : $t:ty),*) $(-> $r:ty)?;)*) => {
        $(#[inline(never)] pub fn $name($($a: $t),*) $(-> $r)? { unimplemented!() })*
    };
}
pub(crate) use stub;
