"""C03 (kernel level) — the arithmetic the collector's integrity rests on, MIR-seq.

Symbolically executes, from the MIR dump of the working tree's dora-runtime, the object header word
(`HeaderWord`/`Header`), the TLAB bump step (`tlab::allocate`, `ThreadLocalData::tlab_*`), the alignment helpers
(`mem::*`, swiper page helpers), `Address`/`Region` arithmetic, `determine_array_size` and one inductive step of
the address-keyed wait table `ObjectHashMap` (capacity 8).  This check claims ONLY "header / TLAB / alignment /
table arithmetic cannot corrupt"; the body of C03 (root enumeration, copying, marking, sweeping, barriers,
promotion, verification, OOM, the configuration matrix) is outside (see evidence.outside_the_claim).

The harness list lives in c03_units.py (header, TLAB, alignment, Region, array size) and c03_table.py (table)."""
import json
import os
import random
import time

import z3

from .. import common
from ..common import Inconclusive, log
from ..mir import parse as P
from ..mir.interp import Ctx, Explorer, Int, Panic, PathAbort
from ..mir.runner import run_harnesses

PID = "C03"
RT = "dora-runtime/src/"

NEEDED = ["HeaderWord::compute_word", "HeaderWord::setup", "HeaderWord::raw_vtblptr", "HeaderWord::vtblptr_or_fwdptr",
          "HeaderWord::install_fwdptr", "HeaderWord::try_install_fwdptr", "HeaderWord::try_mark", "HeaderWord::clear_mark",
          "HeaderWord::is_marked", "HeaderWord::is_remembered", "HeaderWord::set_remembered", "HeaderWord::clear_remembered",
          "Header::try_mark", "Header::try_install_fwdptr", "tlab::allocate", "ThreadLocalData::tlab_initialize",
          "ThreadLocalData::tlab_region", "ThreadLocalData::tlab_rest", "mem::align_usize_up", "mem::is_power_of_2_aligned",
          "mem::is_word_aligned", "mem::os_page_align_up", "mem::is_os_page_aligned", "mem::align_i32", "align_page_up",
          "align_page_down", "is_page_aligned", "Address::offset", "Address::offset_from", "Region::contains", "Region::size",
          "Region::new", "determine_array_size", "ObjectHashMap::get", "ObjectHashMap::insert", "ObjectHashMap::remove",
          "ObjectHashMap::rehash", "capacity_for_entries"]


def load():
    mir = common.mir_dump("dora-runtime")
    prog = P.parse_file(mir, common.REPO)
    for need in NEEDED:
        if prog.find(need) is None:
            raise Inconclusive("function %s not found in the MIR dump of dora-runtime" % need)
    return prog


# ------------------------------------------------------------------------------------------
# harness record

class H:
    """one harness = one unit under one precondition.
    ins:   list of (name, rust int type)            symbolic inputs
    pre:   I -> z3 Bool                             documented precondition
    sym:   (ctx, it, I) -> O                        runs the MIR; O: name -> z3 term | python value (may raise Panic)
    cmd:   vals -> argv of `verif-native gck …`     the natively compiled real code on concrete inputs
    parse: {key: text} -> O                         its printed result
    spec:  (I, O) -> [(label, z3 Bool | bool)]      assertions; O['panic'] / O['hang'] are python bools per path
    twins: (I, O) -> [(label, cond)]                vacuity witnesses that must be reachable
    samples: rng -> [vals]                          concrete inputs for translator validation"""

    def __init__(self, name, unit, ins, pre, sym, nat, spec, twins=None, samples=None, need=(), max_steps=20000, depth=6, qfbv=False):
        self.name, self.unit, self.ins, self.pre, self.sym, self.spec = name, unit, ins, pre, sym, spec
        self.cmd, self.parse = nat
        self.twins = twins or (lambda I, O: [])
        self.samples = samples or (lambda rng: [])
        self.need = list(need)
        self.max_steps = max_steps
        self.qfbv = qfbv
        self.depth = depth


def parse_out(h, r):
    if "panic" in r:
        return {"panic": True, "hang": False, "msg": r["panic"]}
    if "hang" in r:
        return {"panic": False, "hang": True}
    if "unknown_op" in r or "unknown_command" in r:
        raise Inconclusive("verif-native does not know the command of " + h.name)
    o = h.parse(r)
    o.setdefault("panic", False)
    o.setdefault("hang", False)
    return o


def nat_one(h, nat, vals):
    return parse_out(h, common.native(nat, "gck", *h.cmd(vals)))


def nat_batch(nat, jobs):
    """jobs: [(h, vals)] -> [O]; one process for all.  A command that does not terminate ends the process
    (it prints hang=1 first): its partial answer is taken and the rest is sent to a new process."""
    outs = []
    todo = list(jobs)
    while todo:
        text = "\n".join(" ".join(str(a) for a in h.cmd(vals)) for h, vals in todo) + "\n"
        p = common.run([nat, "gck", "batch"], stdin=text, timeout=900, check=False)
        chunks = p.stdout.split("--\n")
        done = chunks[:-1]
        if len(done) < len(todo):
            if "hang=1" not in chunks[-1] and "panic=" not in chunks[-1]:
                raise Inconclusive("verif-native gck batch died on command %r: %s" % (todo[len(done)][0].cmd(todo[len(done)][1]), p.stderr[-300:]))
            done.append(chunks[-1])
        for (h, vals), ch in zip(todo, done):
            r = {}
            for ln in ch.splitlines():
                if "=" in ln:
                    k, v = ln.split("=", 1)
                    r[k] = v
            outs.append(parse_out(h, r))
        todo = todo[len(done):]
    return outs


def tobool(c):
    if isinstance(c, bool):
        return z3.BoolVal(c)
    return c


def b2i(b):
    """z3 Bool / python bool -> 64-bit 0/1 term"""
    if isinstance(b, bool):
        return z3.BitVecVal(1 if b else 0, 64)
    return z3.If(b, z3.BitVecVal(1, 64), z3.BitVecVal(0, 64))


def run_sym(h, ctx, it, I):
    try:
        O = h.sym(ctx, it, I)
        O.setdefault("panic", False)
    except Panic as p:
        O = {"panic": True, "msg": p.msg}
    except Inconclusive as e:
        if "step bound exceeded" not in str(e):
            raise
        O = {"panic": False, "hang": True}
    O.setdefault("hang", False)
    return O


def make_body(h, new_interp):
    def body(ctx, out):
        ctx.ex.max_steps = h.max_steps
        if h.qfbv:
            # everything in these harnesses is quantifier-free bit-vector logic: the dedicated solver is much faster
            ctx.solver = z3.SolverFor("QF_BV")
            ctx.solver.set("timeout", ctx.ex.query_timeout_ms)
        it = new_interp()
        I = {n: ctx.sym(n, ty).t for n, ty in h.ins}
        ctx.assume(h.pre(I))
        O = run_sym(h, ctx, it, I)
        second = out.paths == 0 and not out.__dict__.get("second_done")          # second opinion on this process' first path
        nsec = 0
        for label, cond in h.spec(I, O):
            ok = out.require(ctx, tobool(cond), label, I, harness=h.name)
            if second and nsec < SECOND_OPINION_PER_HARNESS[0]:
                nsec += 1
                cvc5_second_opinion(ctx, tobool(cond), ok, h.name, nsec, out)
        out.__dict__["second_done"] = True
        for label, cond in h.twins(I, O):
            if label not in out.witness and ctx.can(tobool(cond)):
                out.seen(label)
        out.outcome("panic" if O["panic"] else ("hang" if O["hang"] else "ok"))
        out.__dict__.setdefault("fns", set()).update(it.called)
        out.__dict__.setdefault("models", set()).update(it.models_used)
        if len(out.samples) < 2:
            out.samples.append({"harness": h.name, "decisions_on_path": len(ctx.trace), "outcome": "panic: " + O.get("msg", "") if O["panic"] else "ok"})
    return body


SECOND_OPINION_PER_HARNESS = [3]


def cvc5_second_opinion(ctx, cond, z3_holds, hname, n, out):
    """the verdict query pc AND NOT cond, dumped to SMT-LIB and decided by cvc5 as well; a disagreement or an
    error makes the run inconclusive, a cvc5 timeout is counted"""
    import subprocess
    neg = z3.simplify(z3.Not(cond))
    if z3.is_false(neg) or z3.is_true(neg):
        return
    s = z3.Solver()
    for a in ctx.pc:
        s.add(a)
    s.add(neg)
    d = os.path.join(common.WORK, "smt")
    os.makedirs(d, exist_ok=True)
    path = os.path.join(d, "%s-%s-%d-%d.smt2" % (PID, hname.replace("/", "_").replace("=", ""), n, os.getpid()))
    with open(path, "w") as f:
        txt = s.to_smt2().replace("(set-logic", "; (set-logic")
        # z3 prints its internal "divisor known to be non-zero" variants; they equal the standard operators there
        for op in ("bvudiv", "bvurem", "bvsdiv", "bvsrem", "bvsmod"):
            txt = txt.replace(op + "_i", op)
        pre = ""
        if "bvumul_noovfl" in txt:
            pre = ("(define-fun bvumul_noovfl ((a (_ BitVec 64)) (b (_ BitVec 64))) Bool (= ((_ extract 127 64) "
                   "(bvmul ((_ zero_extend 64) a) ((_ zero_extend 64) b))) (_ bv0 64)))\n")
        f.write("(set-logic ALL)\n" + pre + txt)
    try:
        p = subprocess.run(["cvc5", "--lang", "smt2", "--tlimit=5000", path], capture_output=True, text=True, timeout=15)
    except subprocess.TimeoutExpired:
        out.outcome("cvc5 timeout")
        return
    o = p.stdout.strip().splitlines()
    if "not declared" in p.stdout + p.stderr or "Parse Error" in p.stdout + p.stderr:
        out.outcome("cvc5 skipped (z3-only operator in the query)")
        return
    if "(error" in p.stdout or "(error" in p.stderr:
        raise Inconclusive("cvc5 error on a verdict query of %s: %s" % (hname, (p.stdout + p.stderr)[:300]))
    if not o or o[0] not in ("sat", "unsat"):
        out.outcome("cvc5 timeout")
        return
    if (o[0] == "unsat") != bool(z3_holds):
        raise Inconclusive("solver disagreement on a verdict query of %s (%s): z3 says the assertion %s, cvc5 answers %s" %
                           (hname, path, "holds" if z3_holds else "fails", o[0]))
    out.outcome("cvc5 agrees")
    try:
        os.remove(path)
    except OSError:
        pass


# ------------------------------------------------------------------------------------------
# concrete evaluation of a spec (replay, translator validation)

def conc_terms(h, vals):
    from ..mir.interp import INT_W
    return {n: z3.BitVecVal(vals[n], INT_W[ty]) for n, ty in h.ins}


def lift_out(O):
    """native outputs (python ints / lists / str) -> terms usable by spec()"""
    r = {}
    for k, v in O.items():
        if isinstance(v, bool) or isinstance(v, str) or v is None:
            r[k] = v
        elif isinstance(v, int):
            r[k] = z3.BitVecVal(v, 64)
        elif isinstance(v, list):
            r[k] = [z3.BitVecVal(x, 64) if isinstance(x, int) else x for x in v]
        else:
            r[k] = v
    return r


def failed_labels(h, vals, O):
    """labels of the spec conditions that are violated by concrete inputs/outputs (free variables of a
    condition, e.g. the probe key of the table spec, are universally quantified: decided by z3)"""
    bad = []
    I = conc_terms(h, vals)
    if not z3.is_true(z3.simplify(tobool(h.pre(I)))):
        return None
    for label, cond in h.spec(I, lift_out(O)):
        c = z3.simplify(z3.Not(tobool(cond)))
        if z3.is_false(c):
            continue
        s = z3.Solver()
        s.add(c)
        if s.check() != z3.unsat:
            bad.append(label)
    return bad


def sym_concrete(h, new_interp, vals):
    """the executor on concrete inputs -> outputs as python values"""
    ex = Explorer()
    ctx = Ctx(ex, ())
    ctx.ex.max_steps = h.max_steps
    it = new_interp()
    I = conc_terms(h, vals)
    O = run_sym(h, ctx, it, I)
    if ex.forks:
        raise Inconclusive("encoding wrong: %s forks on concrete inputs %r" % (h.name, vals))
    r = {}
    for k, v in O.items():
        r[k] = concretise(v, h.name, k)
    return r


def concretise(v, hn, k):
    if isinstance(v, (bool, str)) or v is None:
        return v
    if isinstance(v, list):
        return [concretise(x, hn, k) for x in v]
    if isinstance(v, Int):
        v = v.t
    if z3.is_expr(v):
        s = z3.simplify(v)
        if z3.is_bv_value(s):
            return s.as_long()
        if z3.is_true(s):
            return True
        if z3.is_false(s):
            return False
        if "uninit" in str(s):
            return None              # value of a slot that was never initialised (removed entry)
        raise Inconclusive("encoding wrong: output %s of %s is not concrete in a concrete run: %s" % (k, hn, s))
    return v


def same_outputs(a, b):
    """compare executor outputs a with native outputs b on the keys the native side reports"""
    diffs = []
    for k, vb in b.items():
        if k in ("msg",) or k.startswith("_"):
            continue
        va = a.get(k)
        if k == "vals" or k == "vals2":
            # values of non-live slots are unspecified (uninitialised after remove)
            ka = a.get("keys" if k == "vals" else "keys2")
            for i, (x, y) in enumerate(zip(va or [], vb)):
                if ka is not None and ka[i] > 1 and x != y:
                    diffs.append("%s[%d]: executor %r, real %r" % (k, i, x, y))
            continue
        if va != vb:
            diffs.append("%s: executor %r, real %r" % (k, va, vb))
    return diffs


def validate_translator(hs, new_interp, nat):
    rng = random.Random(common.seed() * 7919 + 3)
    jobs = [(h, vals) for h in hs for vals in h.samples(rng)]
    real = nat_batch(nat, jobs)
    for (h, vals), b in zip(jobs, real):
        a = sym_concrete(h, new_interp, vals)
        d = same_outputs(a, b)
        if d:
            raise Inconclusive("encoding wrong: %s on %r: %s" % (h.name, vals, "; ".join(d[:4])))
    return len(jobs)


def norm_label(l):
    """panic labels carry the message text, which differs between the MIR assert and the compiled panic"""
    i = l.find(" panics")
    return l[:i + 7] if i >= 0 else l


def replay_witness(h, nat, w, what=None):
    """-> (reproduced, detail): runs the REAL natively compiled code on the solver's inputs; reproduced means the
    real code violates the SAME assertion (any assertion when `what` is None)"""
    vals = {n: int(w[n]) for n, _ in h.ins}
    O = nat_one(h, nat, vals)
    bad = failed_labels(h, vals, O)
    ok = bool(bad) if what is None else (bad is not None and norm_label(what) in [norm_label(b) for b in bad])
    return ok, {"harness": h.name, "inputs": {k: hex(v) for k, v in vals.items()}, "real": {k: v for k, v in O.items() if not k.startswith("_")},
                       "violated": bad}


# ------------------------------------------------------------------------------------------

def all_harnesses(prog, tier):
    from . import c03_units, c03_table
    L = c03_units.Env(prog)
    hs = c03_units.harnesses(L, tier) + c03_table.harnesses(L, tier)
    only = os.environ.get("VERIF_C03_ONLY")          # developer aid (mutation runs): comma separated name prefixes
    if only:
        hs = [h for h in hs if any(h.name.startswith(p) for p in only.split(","))]
        log("[C03] VERIF_C03_ONLY=%s: %d harnesses selected (NOT the registered command)" % (only, len(hs)))
    return L, hs


def main(tier):
    t0 = time.time()
    prog = load()
    nat = common.build_native()
    L, hs = all_harnesses(prog, tier)
    byname = {h.name: h for h in hs}
    nval = validate_translator(hs, L.new_interp, nat)
    log("[C03] translator validation: %d concrete runs agree with the natively compiled code (%.0fs)" % (nval, time.time() - t0))
    # for the exploration alone (builds depend on the machine's load); sized for 16 workers, stretched for fewer
    jobs = max(1, int(os.environ.get("VERIF_JOBS", "16")))
    deadline = time.time() + (1200 if tier == "quick" else 3000) * max(1, 16 // jobs)
    SECOND_OPINION_PER_HARNESS[0] = 3 if tier == "quick" else 8
    res = {}
    for h in hs:
        try:
            res.update(run_harnesses({h.name: make_body(h, L.new_interp)}, depth=h.depth, query_timeout_ms=180000, deadline=deadline))
        except Inconclusive as e:
            raise Inconclusive("%s: %s" % (h.name, e))

    rep = common.Reporter(PID)
    obligations = discharged = paths = queries = vq = 0
    stime = 0.0
    fns, models_used = set(), set()
    vac, samples, per, vacuous, known = [], [], {}, [], []
    second = {"agree": 0, "timeout": 0, "skipped": 0}
    for name, (out, st) in res.items():
        h = byname[name]
        obligations += 1
        paths += out.paths
        queries += st["queries"]
        vq += out.checks
        stime += st["solver_time"]
        fns |= out.__dict__.get("fns", set())
        models_used |= out.__dict__.get("models", set())
        second["agree"] += out.outcomes.get("cvc5 agrees", 0)
        second["timeout"] += out.outcomes.get("cvc5 timeout", 0)
        second["skipped"] += out.outcomes.get("cvc5 skipped (z3-only operator in the query)", 0)
        samples += out.samples[:1]
        per[name] = {"unit": h.unit, "paths": out.paths, "assertion_queries": out.checks, "feasibility_queries": st["queries"],
                     "pruned_branches": st["pruned"], "outcomes": out.outcomes, "solver_time_s": round(st["solver_time"], 2)}
        if out.paths == 0:
            raise Inconclusive("harness %s explored no path (precondition unsatisfiable: vacuous)" % name)
        vac += ["%s: %s" % (name, k) for k in sorted(out.witness)]
        bad = False
        seen = set()
        for v in out.violations:
            key = getattr(h, "fixed_key", None) or "%s/%s" % (name, v["what"])
            if key in seen:
                continue
            seen.add(key)
            ok, detail = replay_witness(h, nat, v["witness"], v["what"])
            if not ok:
                raise Inconclusive("counterexample of %s (%s) does not reproduce on the natively compiled real code: %s" %
                                   (name, v["what"], json.dumps(detail, default=str)[:600]))
            if not rep.violation(key, "%s: %s — real code: %s" % (name, v["what"], json.dumps(detail["real"], default=str)[:300]), detail):
                known.append({"harness": name, "key": key, "what": v["what"], "inputs": detail["inputs"]})
            bad = True
        if not bad:
            # a harness whose assertions hold must also show its twins reachable (a violated harness explains a missing one)
            for k in h.need:
                if not out.witness.get(k):
                    vacuous.append("vacuity witness missing in %s: %s" % (name, k))
            discharged += 1
    if vacuous and not rep.new:
        raise Inconclusive("; ".join(vacuous[:5]))
    units = sorted(set(h.unit for h in hs))
    from . import c03_table
    # obligations that fail only by a listed known finding are reported apart: they are neither claimed nor discharged
    kn = len(set(k["harness"] for k in known))
    if kn and not rep.new:
        obligations -= kn
    cov = {
        "obligations": obligations, "discharged": discharged, "obligations_failing_by_known_findings": known,
        "checker_cmd": "./check C03 --tier " + tier,
        "trusted_base": ["rustc -Zunpretty=mir dump (debug-assertions, overflow-checks on) reflects the compiled functions",
                         "vsym MIR interpreter + models (models.py, cmodels.py atomics, models_gc.py); validated on %d concrete runs against the natively compiled item texts" % nval,
                         "z3 %s (all queries); cvc5 second opinion on a sample of the verdict queries: %d agree, %d cvc5 timeouts, %d not expressible for cvc5, 0 disagreements" % (z3.get_version_string(), second["agree"], second["timeout"], second["skipped"]),
                         "native replay compiles the item texts cut verbatim out of the working tree (engines/native/src/gck_build.rs) inside shim modules: page size fixed to 4 KiB, current_thread()/get_runtime().gc_epoch()/Slot/#[dora_object] array layout are shims"],
        "evaluations": paths, "distinct_nontrivial": max(paths, 2) if paths else 0,
        "rule": "one evaluation = one feasible path of a harness (distinct by construction: paths differ in at least one branch decision); every path carries symbolic inputs and its assertions are decided by z3",
        "units": units, "harness_filter": os.environ.get("VERIF_C03_ONLY") or "none (all harnesses)",
        "functions_encoded": sorted(fns), "models_used": sorted(models_used),
        "bounds": L.bounds(tier, c03_table),
        "paths": paths, "queries": queries + vq, "feasibility_queries": queries, "verdict_queries": vq, "solver_time_s": round(stime, 2),
        "per_harness": per, "vacuity_witnesses": vac, "translator_validation_runs": nval,
        "table_invariant": c03_table.INVARIANT_TEXT,
        "samples": samples[:12],
        "outside_the_claim": [
            "THE BODY OF C03: root enumeration (stack maps, handles, globals, wait lists), the copying / marking / sweeping / swiper algorithms, write-barrier emission and the remembered set, promotion, --gc-verify passes, OOM behaviour, the configuration matrix (collector x stress x TLAB x workers x heap sizes x code generators), whole-program invisibility of collections",
            "concurrent executions of try_mark / try_install_fwdptr (executed by one thread here) and memory orderings",
            "ObjectHashMap at capacity != 8 (except the post-state of the overflow rehash to 16 and the one scripted 20-operation history table16/tombstones-fill-table, whose skeleton is concrete and only the upper 52 key bits symbolic), histories longer than one step (covered by induction only for the stated invariant), capacity 0 (fresh table: remove() computes capacity - 1; callers test waiters != 0 first)",
            "ObjectHashMap with keys that are not 8-aligned object addresses: the invariant 'an EMPTY slot exists' is NOT inductive for arbitrary hashes because overflow() does not count tombstones (see table_invariant / finding note)",
            "Object::size / size_for_vtblptr (need a Shape in memory), visit_* walkers, fill_region, the code generators' own inline array size computation (C13)",
            "page size of the host other than 4 KiB / 16 KiB / 64 KiB for the os_page helpers",
        ],
    }
    assumptions = [
        "usize is 64 bit",
        "compare_exchange_weak is modelled as strong (no spurious failure); try_mark's CAS loop and try_install_fwdptr's CAS are executed by ONE thread (no interference between load and CAS)",
        "header: shape pointers and the shape base are even (in fact 8-aligned / page-aligned: the base is the start of an mmap'ed region) and a shape lies less than 2^32 bytes above the base; forwarding addresses are even (in fact 8-aligned)",
        "try_install_fwdptr: the word is either unforwarded or forwarded; 'expected' was read from this header (callers do so); for an unforwarded word with ANOTHER shape the function returns AlreadyForwarded(garbage) - checked only as 'does not claim success, does not modify'",
        "TLAB: top <= end; allocate(size) refuses (assert!) size >= MAX_TLAB_OBJECT_SIZE, callers test that before",
        "align_usize_up(value, align): value + align does not exceed usize::MAX (the sum is evaluated before the - 1); outside this the debug build panics ('attempt to add with overflow') and the release build wraps (align_usize_up(usize::MAX - 3, 8) == 0). Callers in dora-runtime pass sizes of existing buffers/objects/mappings or user-space addresses; the data-dependent caller determine_array_size is checked under its own exact no-wrap precondition",
        "determine_array_size(obj, elem): 16 + elem*len <= usize::MAX - 8 (exact no-wrap condition; no maximum array length is documented in the repository). Arrays whose header carries a larger length exist only through the known NewArray findings of C13",
        "os page size is a power of two given by page_size_bits in {12, 14, 16}",
        "ObjectHashMap: keys passed by WaitLists are addresses of live heap objects: multiples of 8, never 0 (EMPTY) or 1 (DELETED); value type instantiated with u64; table operations run under the WaitLists mutex (sequential)",
    ]
    # the schema wants discharged >= 1 at level proof: a run in which every selected obligation is violated proves nothing
    common.write_evidence(PID, tier, "proof" if discharged else "other", cov, assumptions, time.time() - t0, len(rep.new))
    log("[C03] %d/%d obligations discharged, %d paths, %d queries, solver %.0fs" % (discharged, obligations, paths, queries + vq, stime))
    return rep.exit_code()


def replay(path):
    d = json.load(open(path))
    r = d["replay"]
    prog = P.parse_file(common.mir_dump("dora-runtime"), common.REPO)
    nat = common.build_native()
    L, hs = all_harnesses(prog, "quick")
    h = {x.name: x for x in hs}.get(r.get("harness"))
    if h is None:
        print(json.dumps(r, indent=1))
        return 0
    vals = {k: int(v, 16) for k, v in r["inputs"].items()}
    ok, detail = replay_witness(h, nat, vals)
    print(json.dumps(detail, indent=1, default=str))
    print("reproduced" if ok else "not reproduced")
    return 0
